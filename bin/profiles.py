"""Per-property job profiles: which programs, configurations and execution modes each check
explores through the real library. Nothing in here decides a verdict."""
import random
from vlib import *

ALLSRC = ("vec", "iter", "iterx", "slice", "range", "deque", "list", "btree", "vecadv", "dequeref", "btreeref",
          "hashset", "hashsetref", "heap", "heapref", "listref")
OWNING = ("vec", "iter", "iterx", "deque", "list", "btree", "vecadv")


def py_calls(p):
    """Sequential closure calls (stage, key, val) of a program - generator-side only (used to
    aim crash points at calls that really happen)."""
    st = [o for o in p["ops"] if o["k"] in ("map", "filter", "fmap", "flat")]
    calls, outs = [], []

    def run(s, k, v):
        if s >= len(st):
            outs.append((k, v))
            return
        o = st[s]
        calls.append((s + 1, k, v))
        if o["k"] == "map":
            run(s + 1, k, o["t"][v])
        elif o["k"] == "filter":
            if o["t"][v]:
                run(s + 1, k, v)
        elif o["k"] == "fmap":
            if o["t"][v] >= 0:
                run(s + 1, k, o["t"][v])
        else:
            for j, c in enumerate(o["tt"][v]):
                run(s + 1, k * 4 + j, c)

    for i, v in enumerate(p["input"]):
        run(0, i, v)
    return calls, outs


def mode_mix(rng, free=0.35):
    return "free" if rng.random() < free else "rand"


def collect_term(rng, src, shape, prefix=False):
    k = rng.choice(["collect_vec", "collect", "collect_into", "collect_into"])
    t = {"k": k}
    if k == "collect_into":
        # (SplitVec<Linear> over a source of unknown length makes the library reserve 2^32 / fragment
        #  size fragment slots - gigabytes - so the linear target is only paired with known lengths)
        tks = ["vec", "split", "fixed"] + (["splitlin"] if full_ok(src, shape) and src != "iterx" else [])
        t["tk"] = rng.choice(tks)
        if prefix:
            t["pre"] = [rng.randrange(V) for _ in range(rng.choice([0, 1, 2, 3, 5, 9]))]
            t["cap"] = rng.choice([0, 0, 1, 4, 100])
    return t


def find_term(rng, src, shape):
    ks = ["find", "find", "first", "any", "all"]
    if idx_ok(src, shape):
        ks += ["find_idx", "find_idx", "first_idx"]
    return {"k": rng.choice(ks), "t": pred_table(rng)}


def reduce_term(rng, src, shape, ordered=False):
    ks = ["reduce", "reduce"]
    if full_ok(src, shape):
        ks += FULL_ONLY
    k = rng.choice(ks)
    ops = ["add", "xor", "min", "max"] + (["sub", "poly"] if ordered else [])
    return {"k": k, "op": rng.choice(ops), "t": [rng.randrange(3) for _ in range(V)]}


def any_term(rng, src, shape, ordered=False, prefix=True):
    r = rng.random()
    if r < 0.3:
        return collect_term(rng, src, shape, prefix)
    if r < 0.45:
        return find_term(rng, src, shape)
    if r < 0.65:
        return reduce_term(rng, src, shape, ordered)
    if r < 0.75:
        return {"k": "collect_x"}
    if r < 0.88:
        return {"k": "count"}
    return {"k": "for_each"}


def late_match(rng, p):
    """Rewrites the predicate table of a find-like terminal so that the first match comes as late
    as a single-value predicate allows (random tables almost always match within the first few
    elements, which never exercises a finder that is several chunks into the source)."""
    k = p["term"]["k"]
    if k not in ("find", "any", "all", "find_idx"):
        return p
    calls, outs = py_calls(norm(p))
    if not outs:
        return p
    first = {}
    for i, (key, v) in enumerate(outs):
        first.setdefault(v, i)
    # a first match somewhere in the middle: late enough for the finder to be several chunks in,
    # early enough for plenty of input to remain after it
    mid = [x for x in first if 0.2 * len(outs) <= first[x] <= 0.7 * len(outs)]
    if mid and rng.random() < 0.7:
        v = rng.choice(mid)
    else:
        v = max(first, key=lambda x: first[x]) if rng.random() < 0.7 else rng.choice(list(first))
    want = [1 if x == v else 0 for x in range(V)]
    p["term"]["t"] = [1 - w for w in want] if k == "all" else want
    return p


def unique_match(rng, p):
    """Rewrites the input so that exactly ONE source element (somewhere in the middle) produces an
    output the find-like terminal is looking for: nobody else can end the search."""
    k = p["term"]["k"]
    if k not in ("find", "any", "all", "find_idx") or len(p["input"]) < 4 or p["src"] in ("btree", "btreeref"):
        return p
    late_match(rng, p)
    want = [x for x in range(V) if (p["term"]["t"][x] != 0) != (k == "all")]

    def yields(x):
        q = dict(p, input=[x])
        _, outs = py_calls(norm(q))
        return any(o[1] in want for o in outs)
    bad = [x for x in range(V) if yields(x)]
    good = [x for x in range(V) if x not in bad]
    if not bad or not good:
        return p
    n = len(p["input"])
    pos = rng.randrange(n // 4, max(n // 4 + 1, (3 * n) // 4))
    p["input"] = [rng.choice(good) if x in bad else x for x in p["input"]]
    p["input"][pos] = rng.choice(bad)
    return p


def with_term(rng, mk, **kw):
    """generate program first (to know src/shape), then attach a terminal built by mk"""
    p = gen_prog(rng, **kw)
    p["term"] = mk(rng, p["src"], shape_of(p))
    if p["term"]["k"] in ("find", "any", "all", "find_idx") and p["src"] != "inf":
        r = rng.random()
        if r < 0.35:
            unique_match(rng, p)
        elif r < 0.6:
            late_match(rng, p)
    return norm(p)


import itertools
ALLSHAPES = ["".join(t) for n in range(4) for t in itertools.product("mflo", repeat=n)]


def source_sweep(rng, mk_terms, add, nts, nt1):
    """every source kind with the empty chain and with one stage, for every terminal constructor"""
    for src in ALLSRC:
        for sh in ("", rng.choice("mflo")):
            for mk in mk_terms:
                p = gen_prog(rng, src=src, shape=sh, n=rng.choice([5, 8, 13]), nt=(1 if nt1 else rng.choice(nts)),
                             cs=rng.choice([("cs", 1), ("cs", 2), ("csmin", 2), None]))
                p["term"] = mk(rng, src, sh)
                add(norm(p), "rand" if not nt1 else "free")


def matrix(rng, tier, mk_terms, add, nts=(2, 3, 4), nt1=False, reps=1):
    """Systematic part of a profile (the rest is random): (a) every chain shape of length 0..3,
    (b) every kernel family x terminal constructor x chunk path (c = 1 / c > 1); thorough: the
    full product shape x terminal constructor x chunk path."""
    def one(sh, mk, c):
        src = rng.choice(("vec", "iterx", "iter") if len(sh) == 3 else ("vec", "iterx", "iter", "slice", "range"))
        if src in ("slice", "range") and len(sh) > 2:
            src = "vec"
        p = gen_prog(rng, src=src, shape=sh, n=rng.choice([5, 8, 13, 24]), nt=(1 if nt1 else rng.choice(nts)),
                     cs=rng.choice([("cs", c), ("cs", c), ("csmin", c)]))
        p["term"] = mk(rng, src, sh)
        add(norm(p), "rand" if not nt1 else "free")
    tiny = rng.choice([0, 1, 1, 2])

    def one_n(sh, mk, c, n_):
        src = rng.choice(("vec", "iterx", "iter") if len(sh) == 3 else ("vec", "iterx", "iter", "slice", "range"))
        p = gen_prog(rng, src=src, shape=sh, n=n_, nt=(1 if nt1 else rng.choice(nts)), cs=("cs", c))
        p["term"] = mk(rng, src, sh)
        add(norm(p), "rand" if not nt1 else "free")
    fam = shapes_by_family(3, by_type=True)          # the eight computation types
    if tier == "quick":
        for rep in range(reps):
            for i, sh in enumerate(ALLSHAPES):
                one(sh, mk_terms[(i + rep) % len(mk_terms)], rng.choice([1, 2, 3]))
        for f in sorted(fam):
            for mk in mk_terms:
                for rep in range(3):
                    for c in (1, rng.choice([2, 3])):
                        one(rng.choice(fam[f]), mk, c)
                # inputs of 0, 1 and 2 elements reach every kernel too
                one_n(rng.choice(fam[f]), mk, rng.choice([1, 2]), rng.choice([0, 1, 1, 2]))
        source_sweep(rng, mk_terms, add, nts, nt1)
    else:
        for rep in range(reps):
            for sh in ALLSHAPES:
                for mk in mk_terms:
                    for c in (1, rng.choice([2, 3, 5])):
                        one(sh, mk, c)
        for f in sorted(fam):
            for mk in mk_terms:
                for n_ in (0, 1, 2, 3):
                    for c in (1, 2):
                        one_n(rng.choice(fam[f]), mk, c, n_)
        for rep in range(4):
            source_sweep(rng, mk_terms, add, nts, nt1)


def lag_jobs(rng, tier, mk_terms, add):
    """More threads than one lag period (4) with Min / Auto chunks and enough input that the
    workers spawned first make progress before the spawning thread computes the next chunk size:
    the only way to reach the growth rule of next_chunk_size and workers with different chunk sizes."""
    shapes = ["m", "f", "o", "l", "mf", "of", "lf", "", "oo", "mo", "fo", "ll"]
    for i in range(36 if tier == "quick" else 360):
        src = rng.choice(("vec", "iter", "slice", "range", "vec"))
        sh = shapes[i % len(shapes)]
        if len(sh) > SRC_MAXLEN[src] or (src in ("slice", "range") and len(sh) > 1):
            src = "vec"
        p = gen_prog(rng, src=src, shape=sh, n=rng.choice([40, 64]), nt=rng.choice([6, 7, 8, 12, None]),
                     cs=rng.choice([("csmin", 1), ("csmin", 1), ("csmin", 2), ("csmin", 3), None]))
        p["term"] = mk_terms[i % len(mk_terms)](rng, src, shape_of(p))
        r = rng.random()
        if r < 0.4:
            unique_match(rng, p)
        elif r < 0.7:
            late_match(rng, p)
        add(norm(p), "rand")


def slow_source_jobs(rng, tier, mk_terms, add):
    """Free-running programs over a by-value iterator whose next() is slow: while one worker is
    inside the source the others reserve their chunks and queue at the turnstile, and the source
    reports 'nothing more' while reservations are still pending - interleavings the deterministic
    scheduler (atomic pulls) cannot produce."""
    for i in range(48 if tier == "quick" else 400):
        src = rng.choice(("iter", "iter", "iterx", "deque", "hashset"))
        sh = rng.choice(["", "m", "f", "o", "l", "mf"][: (6 if src in ("iter", "iterx") else 5)])
        if len(sh) > SRC_MAXLEN[src]:
            sh = sh[:1]
        n_ = rng.choice([9, 12, 16, 24])
        if i % 2 == 0:
            # "single round" configurations: k chunks cover the input and there are more threads than chunks
            k = rng.choice([2, 3, 4])
            c_, nt_ = -(-n_ // k), rng.choice([k + 1, 6, 8])
            cs_ = rng.choice([("cs", c_), ("csmin", c_)])
        else:
            nt_, cs_ = rng.choice([3, 4, 6]), rng.choice([("cs", 1), ("cs", 2), ("cs", 3), ("csmin", 2), None])
        p = gen_prog(rng, src=src, shape=sh, n=n_, nt=nt_, cs=cs_)
        p["term"] = mk_terms[i % len(mk_terms)](rng, src, shape_of(p))
        # every third job also holds the source inside its first next() until the other workers have
        # begun (reserved their chunks and queued): the "reserved but not yet pulled" state on purpose
        hold = (nt_ if i % 3 == 0 else 0) if src in ("iter", "iterx") else 0
        add(norm(p), "free", sleep_us=rng.choice([100, 300]) if src in ("iter", "iterx") else 0, hold_workers=hold)


def hold_jobs(rng, tier, mk_terms, add):
    """Scheduled runs in which the worker that reaches source position `hold_pos` parks INSIDE the
    by-value iterator's next() - it holds the turnstile - and is scheduled last: every other worker
    reserves its chunk and spins at the gate (the scheduler sets it aside as blocked), the spawning
    thread runs to its join, and only then the source is released. This is the 'reserved but not yet
    pulled' family of states of MC_Source, produced on purpose in the real library."""
    for i in range(24 if tier == "quick" else 240):
        src = rng.choice(("iter", "iter", "iterx"))
        sh = rng.choice(["", "m", "f", "o", "l", "mf", "of"])
        n_ = rng.choice([6, 9, 12, 16])
        if i % 2 == 0:
            k = rng.choice([2, 3, 4])
            c_, nt_ = -(-n_ // k), rng.choice([k + 1, k + 2, 6])
            cs_ = rng.choice([("cs", c_), ("csmin", c_)])
        else:
            c_ = rng.choice([1, 2, 3])
            nt_, cs_ = rng.choice([3, 4, 6]), rng.choice([("cs", c_), ("csmin", c_), None])
        p = gen_prog(rng, src=src, shape=sh, n=n_, nt=nt_, cs=cs_)
        p["term"] = mk_terms[i % len(mk_terms)](rng, src, shape_of(p))
        add(norm(p), "hold", hold_pos=rng.choice([0, 0, 1, c_ - 1, c_, c_ + 1, n_ - 1]))


EAGER_SHAPES = ["fl", "mfl", "ol", "ofl", "lo", "lfm", "lfl", "lfo"]     # one chain per eager (materialising) site


def mixed_tables(rng, p):
    """tables that let most elements through but reject / drop / fan out some: every composed closure
    has both outcomes to get right"""
    for o in p["ops"]:
        if o["k"] == "filter":
            t = [1] * V
            for x in rng.sample(range(V), rng.choice([1, 2])):
                t[x] = 0
            o["t"] = t
        elif o["k"] == "fmap":
            t = [rng.randrange(V) for _ in range(V)]
            for x in rng.sample(range(V), rng.choice([1, 2])):
                t[x] = -1
            o["t"] = t
        elif o["k"] == "flat":
            o["tt"] = [[rng.randrange(V) for _ in range(rng.choice([0, 1, 1, 2, 3]))] for _ in range(V)]
    return p


def transition_jobs(rng, tier, mk_terms, add, nt1=False):
    """Every (computation type, transformation) pair of the builder - 8 x 4 composed-closure / eager sites -
    reached by a shortest chain, several programs each, with tables that exercise both outcomes of every stage."""
    fam = shapes_by_family(2, by_type=True)
    for ty in sorted(fam):
        base = min(fam[ty], key=len)
        for op in "mflo":
            sh = base + op
            for rep in range(3 if tier == "quick" else 12):
                src = rng.choice(("vec", "iter", "iterx"))
                p = gen_prog(rng, src=src, shape=sh, n=rng.choice([8, 13, 24]), nt=(1 if nt1 else rng.choice([2, 3])),
                             cs=rng.choice([("cs", 1), ("cs", 2), ("cs", 3), None]))
                mixed_tables(rng, p)
                p["term"] = mk_terms[rep % len(mk_terms)](rng, src, sh)
                add(norm(p), "free" if nt1 else "rand")


def eager_site_jobs(rng, tier, mk_terms, add):
    """Chains through each of the eight eager sites, several schedules each: what the materialised
    intermediate looks like (order, completeness) only shows when several workers share the first run."""
    for sh in EAGER_SHAPES:
        for rep in range(4 if tier == "quick" else 24):
            src = rng.choice(("vec", "iterx", "iter"))
            p = gen_prog(rng, src=src, shape=sh, n=rng.choice([13, 16, 24]), nt=rng.choice([2, 3, 4]),
                         cs=rng.choice([("cs", 1), ("cs", 2), ("csmin", 1)]))
            for o in p["ops"]:               # let (nearly) everything through, so that there is an order to get wrong
                if o["k"] == "filter":
                    o["t"] = [1 if rng.random() < 0.85 else 0 for _ in range(V)]
                elif o["k"] == "fmap":
                    o["t"] = [x if x >= 0 else rng.randrange(V) for x in o["t"]]
                elif o["k"] == "flat":
                    o["tt"] = [x if x else [rng.randrange(V)] for x in o["tt"]]
            p["term"] = mk_terms[rep % len(mk_terms)](rng, src, sh)
            add(norm(p), "rand", sticky=0.0)


def big_jobs(rng, tier, mk_terms, add):
    """Programs over 7*10^4..3*10^5 elements (digests instead of sequences): thresholds such as
    2^16 / 2^17 elements and the growth of SplitVec fragments are only crossed here. Systematic
    over source class (known / unknown length) x pipeline class x terminal."""
    sizes = [140000] if tier == "quick" else [66000, 140000, 300000]
    srcs = ("iterx", "vec") if tier == "quick" else ("iterx", "vec", "iter", "range")
    classes = ("m", "f") if tier == "quick" else ("m", "mm", "f", "o", "l", "mf")
    for n in sizes:
        for src in srcs:
            for sh in classes:
                for mk in mk_terms:
                    if src == "range" and len(sh) > 1:
                        continue
                    # (by-value iterator sources hand out tickets one pull at a time: with chunk 1 - what Auto
                    #  resolves to for an unknown length - and eight spinning threads, 10^5 elements take minutes
                    #  on a loaded machine; big programs over such sources always get chunks >= 64)
                    cs_ = rng.choice([("cs", 64), ("csmin", 64), ("cs", 1024)]) if src in ("iterx", "iter") else \
                        rng.choice([None, ("cs", 64), ("csmin", 16), ("cs", 1024)])
                    p = gen_prog(rng, src=src, shape=sh, n=8, nt=rng.choice([None, 4, 8]), cs=cs_)
                    for o in p["ops"]:
                        if o["k"] == "flat":
                            o["tt"] = [x[:2] for x in o["tt"]]
                    p["n"] = n
                    p["term"] = mk(rng, src, sh)
                    add(norm(p), "free", logcalls=0, timeout_ms=180000)


def capacity_sweep(rng, tier, add, quick_pairs):
    """Pinned-vector targets grow by fragments (doubling: 4, 8, 16, 32, ...; linear: 16 each): sweep
    prefix length x input length around the fragment boundaries, map-only and filtering."""
    pres = [1, 3, 4, 5, 11, 12, 13, 27, 28, 29, 59, 60, 61]
    lens = [1, 2, 4, 5, 8, 17, 33, 36]
    pairs = [(a, b) for a in pres for b in lens]
    rng.shuffle(pairs)
    for (a, b) in pairs[:(quick_pairs if tier == "quick" else len(pairs))]:
        for tk in (("split", "fixed") if tier == "quick" else ("split", "splitlin", "vec", "fixed")):
            src = rng.choice(("vec", "range", "iter", "iterx"))
            sh = rng.choice(["m", "m", "", "f"]) if src != "range" else rng.choice(["", "f"])
            if tk == "splitlin":
                src, sh = rng.choice(("vec", "iter")), rng.choice(["m", "f", ""])
                if sh != "" and not full_ok(src, sh):
                    sh = "m"
            p = gen_prog(rng, src=src, shape=sh, n=b, nt=rng.choice([2, 3, 4]), cs=rng.choice([("cs", 1), ("cs", 2), None]))
            if tk == "splitlin" and not full_ok(src, shape_of(p)):
                continue
            p["term"] = {"k": "collect_into", "tk": tk, "pre": [rng.randrange(V) for _ in range(a)], "cap": rng.choice([0, 0, 3])}
            add(norm(p), "free" if rng.random() < 0.5 else "rand")


def single_worker_jobs(rng, tier, add):
    """Inputs of one or two elements with num_threads > 1: the runner resolves to a single worker
    while still taking the parallel path; every filtering type x every collect target."""
    fam = shapes_by_family(2, by_type=True)
    terms = [{"k": "collect"}, {"k": "collect_vec"}, {"k": "collect_x"}, {"k": "collect_into", "tk": "split"},
             {"k": "collect_into", "tk": "vec"}, {"k": "collect_into", "tk": "fixed"}]
    for ty in sorted(fam):
        for t in terms:
            for n_ in ((1,) if tier == "quick" else (1, 2)):
                sh = rng.choice(fam[ty])
                src = rng.choice(("vec", "iter", "iterx"))
                p = gen_prog(rng, src=src, shape=sh, n=n_, nt=rng.choice([2, 3, 8]), cs=rng.choice([None, ("cs", 1), ("cs", 4)]))
                for o in p["ops"]:          # let the element through
                    if o["k"] == "filter":
                        o["t"] = [1] * V
                    elif o["k"] == "fmap":
                        o["t"] = [max(0, x) for x in o["t"]]
                    elif o["k"] == "flat":
                        o["tt"] = [x if x else [rng.randrange(V)] for x in o["tt"]]
                p["term"] = dict(t)
                add(norm(p), mode_mix(rng, 0.5))


def big_find_jobs(rng, tier, add):
    # finds over 10^5 elements with chunks in the thousands: a late single match, matches in several chunks
    for i in range(16 if tier == "quick" else 96):
        explicit = i % 2 == 1
        src = rng.choice(("vec", "range", "slice", "vec") if explicit else ("vec", "range", "iter", "iterx"))
        sh = rng.choice(["", "m", "f"]) if src not in ("range", "slice") else rng.choice(["", "f"])
        p = gen_prog(rng, src=src, shape=sh, n=8, nt=rng.choice([2, 3, 4] if explicit else [2, 4, 8]),
                     cs=rng.choice([("cs", 2048), ("cs", 4096)] if explicit else [("cs", 2048), ("cs", 4096), ("csmin", 1500), ("cs", 10000)]))
        c_ = [o["v"] for o in p["ops"] if o["k"] in ("cs", "csmin")][0]
        if i % 2 == 0:
            # periodic input: matches everywhere
            p["n"] = rng.choice([30000, 70000])
            p["term"] = {"k": rng.choice(["find", "any", "find", "first"]), "t": pred_table(rng)}
        else:
            # explicit input with exactly two matching elements: the first deep inside the first chunk,
            # the second right at the start of a later chunk (which is therefore found earlier in time)
            p["term"] = {"k": rng.choice(["find", "any", "find_idx" if idx_ok(src, sh) else "find"]), "t": pred_table(rng)}
            want = [x for x in range(V) if p["term"]["t"][x]]

            def yields(x):
                _, outs = py_calls(norm(dict(p, input=[x])))
                return any(o[1] in want for o in outs)
            bad = [x for x in range(V) if yields(x)]
            good = [x for x in range(V) if x not in bad]
            if bad and good:
                nn = 5 * c_ if c_ <= 4096 else 3 * c_
                p["input"] = [rng.choice(good) for _ in range(nn)]
                p["input"][rng.randrange(c_ // 2 + 1100 if c_ > 2400 else c_ // 2, c_ - 1)] = rng.choice(bad)
                p["input"][rng.choice([1, 2]) * c_ + rng.randrange(0, 20)] = rng.choice(bad)
            else:
                p["n"] = 30000
        # explicit inputs run under the deterministic scheduler (uniform random choice): the owner of the
        # later chunk reaches its match after a few steps, when the owner of chunk 0 is still near its start
        add(norm(p), "rand" if len(p["input"]) > 2000 else "free", logcalls=0, timeout_ms=180000, sticky=0.0)


def jobs_for(prop, tier, seed):
    rng = random.Random(seed * 1000003 + int(prop[1:]))
    n = {"quick": 160, "thorough": 1600}[tier]
    jobs = []

    def add(p, mode=None, **kw):
        jobs.append(mk_job(len(jobs) + 1, p, mode or mode_mix(rng), rng, **kw))

    if prop == "C01":
        transition_jobs(rng, tier, [lambda r, s_, sh: collect_term(r, s_, sh)], add)
        eager_site_jobs(rng, tier, [lambda r, s_, sh: collect_term(r, s_, sh)], add)
        hold_jobs(rng, tier, [lambda r, s_, sh: collect_term(r, s_, sh)], add)
        slow_source_jobs(rng, tier, [lambda r, s_, sh: collect_term(r, s_, sh)], add)
        lag_jobs(rng, tier, [lambda r, s_, sh: collect_term(r, s_, sh)], add)
        single_worker_jobs(rng, tier, add)
        matrix(rng, tier, [lambda r, s_, sh: collect_term(r, s_, sh)], add, reps=3)
        big_jobs(rng, tier, [lambda r, s_, sh: {"k": "collect_vec"}, lambda r, s_, sh: {"k": "collect"},
                             lambda r, s_, sh: {"k": "collect_into", "tk": "split"},
                             lambda r, s_, sh: {"k": "collect_into", "tk": r.choice(["vec", "fixed"])}], add)
        for _ in range(n):
            add(with_term(rng, lambda r, s, sh: collect_term(r, s, sh)))
    elif prop == "C02":
        hold_jobs(rng, tier, [find_term], add)
        big_find_jobs(rng, tier, add)
        slow_source_jobs(rng, tier, [find_term], add)
        lag_jobs(rng, tier, [find_term], add)
        matrix(rng, tier, [find_term], add, reps=3)
        for _ in range(n):
            add(with_term(rng, find_term, sizes=(0, 1, 2, 5, 8, 13, 24, 40, 64)))
    elif prop == "C03":
        transition_jobs(rng, tier, [lambda r, s_, sh: {"k": "reduce", "op": r.choice(["add", "xor", "min", "max"])}], add)
        hold_jobs(rng, tier, [lambda r, s_, sh: {"k": "reduce", "op": r.choice(["add", "xor", "min", "max"])}, reduce_term], add)
        slow_source_jobs(rng, tier, [lambda r, s_, sh: {"k": "reduce", "op": r.choice(["add", "xor", "min", "max"])}, reduce_term], add)
        lag_jobs(rng, tier, [lambda r, s_, sh: {"k": "reduce", "op": r.choice(["add", "xor", "min", "max"])}], add)
        matrix(rng, tier, [reduce_term, lambda r, s_, sh: {"k": "reduce", "op": r.choice(["add", "xor", "min", "max"])}], add, reps=2)
        big_jobs(rng, tier, [lambda r, s_, sh: {"k": "reduce", "op": "add"}], add)
        for _ in range(n):
            add(with_term(rng, reduce_term))
    elif prop == "C04":
        transition_jobs(rng, tier, [lambda r, s_, sh: {"k": "count"}, lambda r, s_, sh: {"k": "for_each"}], add)
        hold_jobs(rng, tier, [lambda r, s_, sh: {"k": "count"}, lambda r, s_, sh: {"k": "for_each"}], add)
        slow_source_jobs(rng, tier, [lambda r, s_, sh: {"k": "count"}, lambda r, s_, sh: {"k": "for_each"}], add)
        lag_jobs(rng, tier, [lambda r, s_, sh: {"k": "count"}, lambda r, s_, sh: {"k": "for_each"}], add)
        matrix(rng, tier, [lambda r, s_, sh: {"k": "count"}, lambda r, s_, sh: {"k": "for_each"}], add, reps=2)
        big_jobs(rng, tier, [lambda r, s_, sh: {"k": "count"}], add)
        for _ in range(n):
            add(with_term(rng, lambda r, s, sh: {"k": r.choice(["count", "for_each"])}))
    elif prop == "C05":
        transition_jobs(rng, tier, [lambda r, s_, sh: any_term(r, s_, sh), lambda r, s_, sh: {"k": "count"}, lambda r, s_, sh: collect_term(r, s_, sh)], add)
        eager_site_jobs(rng, tier, [lambda r, s_, sh: any_term(r, s_, sh)], add)
        hold_jobs(rng, tier, [lambda r, s_, sh: any_term(r, s_, sh)], add)
        slow_source_jobs(rng, tier, [lambda r, s_, sh: any_term(r, s_, sh)], add)
        lag_jobs(rng, tier, [lambda r, s_, sh: any_term(r, s_, sh)], add)
        matrix(rng, tier, [lambda r, s_, sh: collect_term(r, s_, sh), lambda r, s_, sh: {"k": "collect_x"},
                           lambda r, s_, sh: {"k": "count"}, lambda r, s_, sh: {"k": "for_each"},
                           reduce_term, find_term], add)
        for i in range(n):
            src = rng.choice(("iter", "iterx", "iter", "iterx") + ALLSRC)
            p = with_term(rng, lambda r, s, sh: any_term(r, s, sh), src=src)
            m = mode_mix(rng, 0.5)
            add(p, m, spin=(rng.choice([0, 50, 400]) if m == "free" else 0))
    elif prop == "C06":
        def ci(r, s_, sh):
            return {"k": "collect_into", "tk": r.choice(["vec", "split", "fixed"]),
                    "pre": [r.randrange(V) for _ in range(r.choice([0, 1, 2, 3, 5, 9]))], "cap": r.choice([0, 0, 1, 4, 100])}
        matrix(rng, tier, [ci], add)
        capacity_sweep(rng, tier, add, 60)
        for _ in range(n):
            shape = rng.choice(["", "m", "mm", "m", None, None])
            src = rng.choice(("iterx", "iter", "vec", "range", "slice", "iterx", "deque", "btree"))
            if shape is not None and len(shape) > SRC_MAXLEN[src]:
                shape = "m"
            p = gen_prog(rng, src=src, shape=shape)
            t = collect_term(rng, src, shape_of(p), prefix=True)
            t["k"] = "collect_into"
            if not t.get("tk"):
                t["tk"] = rng.choice(["vec", "split", "fixed"])
                t["pre"] = [rng.randrange(V) for _ in range(rng.choice([0, 1, 2, 3, 5, 9]))]
                t["cap"] = rng.choice([0, 0, 1, 4, 100])
            p["term"] = t
            add(norm(p))
    elif prop == "C07":
        transition_jobs(rng, tier, [lambda r, s_, sh: {"k": "collect_x"}], add)
        eager_site_jobs(rng, tier, [lambda r, s_, sh: {"k": "collect_x"}], add)
        hold_jobs(rng, tier, [lambda r, s_, sh: {"k": "collect_x"}], add)
        slow_source_jobs(rng, tier, [lambda r, s_, sh: {"k": "collect_x"}], add)
        lag_jobs(rng, tier, [lambda r, s_, sh: {"k": "collect_x"}], add)
        matrix(rng, tier, [lambda r, s_, sh: {"k": "collect_x"}], add)
        big_jobs(rng, tier, [lambda r, s_, sh: {"k": "collect_x"}], add)
        for _ in range(n):
            add(with_term(rng, lambda r, s, sh: {"k": "collect_x"}))
    elif prop == "C08":
        for i in range(30 if tier == "quick" else 300):
            # more threads than one lag period; the source must still be busy at every spawn decision
            nt = rng.choice([5, 6, 7, 8, 9, 10])
            p = gen_prog(rng, src=rng.choice(("vec", "iter", "range", "slice")), shape=rng.choice(["m", "f", "", "mf"]), n=rng.choice([40, 64]),
                         nt=nt, cs=rng.choice([("cs", 1), ("cs", 2), ("csmin", 1), None]))
            p["term"] = any_term(rng, p["src"], shape_of(p))
            add(norm(p), "rand", sticky=0.9)
        for i in range(12):
            p = gen_prog(rng, src=rng.choice(("vec", "iterx")), shape=rng.choice(["", "m", "f"]), n=24, nt=rng.choice([2, 3, 4]), cs=("cs", 1))
            p["term"] = {"k": "reduce", "op": "add"} if i % 3 else {"k": "min_by_key", "t": [rng.randrange(3) for _ in range(V)]}
            if p["term"]["k"] == "min_by_key" and not full_ok(p["src"], shape_of(p)):
                p["term"] = {"k": "reduce", "op": "max"}
            add(norm(p), "rand")
        for _ in range(n):
            nt = rng.choice([1, 1, 2, 2, 3, 3, 4, 5, 6, 32])
            add(with_term(rng, lambda r, s, sh: any_term(r, s, sh), nt=nt,
                          sizes=(0, 1, 2, 3, 5, 8, 13, 24, 40, 64)))
    elif prop == "C09":
        transition_jobs(rng, tier, [lambda r, s_, sh: any_term(r, s_, sh, ordered=True)], add, nt1=True)
        matrix(rng, tier, [lambda r, s_, sh: any_term(r, s_, sh, ordered=True), lambda r, s_, sh: reduce_term(r, s_, sh, ordered=True)], add, nt1=True)
        for _ in range(n):
            p = with_term(rng, lambda r, s, sh: any_term(r, s, sh, ordered=True), nt=1)
            add(p, "free")
    elif prop == "C10":
        hold_jobs(rng, tier, [find_term], add)
        lag_jobs(rng, tier, [find_term], add)
        for i in range(n):
            r = rng.random()
            if r < 0.3:
                pat = [rng.randrange(V) for _ in range(rng.choice([3, 8, 16, 24]))]
                sh = "".join(rng.choice("mfo") for _ in range(rng.choice([0, 1, 2])))
                p = gen_prog(rng, src="inf", shape=sh, n=len(pat), nt=rng.choice([1, 2, 3, 4, 8, None]),
                             cs=rng.choice([None, ("cs", 1), ("cs", 3), ("cs", 16), ("csmin", 4)]))
                p["input"] = pat
                p["term"] = {"k": rng.choice(["find", "any", "all", "first"]), "t": pred_table(rng)}
                norm(p)
                calls, outs = py_calls(p)
                k = p["term"]["k"]
                want = [o for o in outs if (k == "first") or (k in ("find", "any") and p["term"]["t"][o[1]]) or (k == "all" and not p["term"]["t"][o[1]])]
                if not want:
                    continue  # would legitimately never terminate
                add(p, mode_mix(rng, 0.5), timeout_ms=20000)
            else:
                nn = rng.choice([24, 64, 120, 200])
                p = with_term(rng, find_term, n=nn, sources=("vec", "iter", "iterx", "range", "slice"),
                              nt=rng.choice([1, 1, 2, 3, 4, 6, None]),
                              cs=rng.choice([None, ("cs", 1), ("cs", 2), ("cs", 5), ("cs", 16), ("csmin", 3)]))
                add(p)
    elif prop == "C11":
        matrix(rng, tier, [lambda r, s_, sh: any_term(r, s_, sh)], add, nts=(3, 5, 6, 8))
        for i in range(40 if tier == "quick" else 400):
            # enough threads to cross a lag period, enough input for the early workers to make progress
            p = with_term(rng, lambda r, s_, sh: any_term(r, s_, sh), cs=("cs", rng.choice([1, 2, 3, 4])), nt=rng.choice([6, 7, 8, 12]),
                          sources=("vec", "iter", "slice", "range"), sizes=(40, 64), maxlen=2)
            add(p, "rand")
        for _ in range(n):
            c = rng.choice([1, 2, 2, 3, 3, 4, 5, 7, 16, 64])
            p = with_term(rng, lambda r, s, sh: any_term(r, s, sh), cs=("cs", c),
                          nt=rng.choice([2, 3, 5, 6, 8, None]),
                          sources=("vec", "iter", "iterx", "slice", "range", "deque"),
                          sizes=(1, 2, 3, 5, 8, 13, 24, 40, 64))
            add(p)
    elif prop == "C12":
        vals = [(0, 0), (1, 0), (2, 0), (3, 0), (7, 0), (64, 0), (1000, 0), (2000000000, 0), (1, 40), (1, 64)]
        for _ in range(n * 2):
            p = gen_prog(rng, nt=None, cs=None, sizes=(0, 2, 5))
            stages = [o for o in p["ops"]]
            k = rng.choice([0, 1, 2, 3, 4, 5])
            big = False
            for _i in range(k):
                v, sh = rng.choice(vals)
                big = big or v > 64 or sh > 0
                o = {"k": rng.choice(["nt", "cs", "csmin"]), "v": v, "sh": sh}
                pos = rng.randrange(len(stages) + 1)
                if pos == 0 and stages and stages[0].get("h"):
                    pos = 1
                stages.insert(pos, o)
            p["ops"] = stages
            # (chunk sizes in the billions make by-value iterator sources allocate that many
            #  buffer slots; C12 is about params(), so such chains are built but not run)
            p["term"] = {"k": "none" if big else rng.choice(["count", "collect_vec", "first", "none"])}
            add(norm(p), "free")
    elif prop == "C13":
        transition_jobs(rng, tier, [lambda r, s_, sh: any_term(r, s_, sh)], add)
        hold_jobs(rng, tier, [lambda r, s_, sh: any_term(r, s_, sh)], add)
        slow_source_jobs(rng, tier, [lambda r, s_, sh: any_term(r, s_, sh)], add)
        lag_jobs(rng, tier, [lambda r, s_, sh: any_term(r, s_, sh)], add)
        matrix(rng, tier, [lambda r, s_, sh: any_term(r, s_, sh)], add)
        single_worker_jobs(rng, tier, add)
        for _ in range(n):
            add(with_term(rng, lambda r, s, sh: any_term(r, s, sh), sources=OWNING + ("slice", "range")))
    elif prop == "C14":
        tries = 0
        while len(jobs) < n and tries < n * 5:
            tries += 1
            p = with_term(rng, lambda r, s, sh: any_term(r, s, sh), sizes=(1, 2, 3, 5, 8, 13, 24, 40, 64))
            calls, outs = py_calls(p)
            k = p["term"]["k"]
            cands = list(calls)
            if k in ("find", "any", "all", "find_idx", "for_each"):
                cands += [(99, o[0], o[1]) for o in outs]
            if k in ("reduce", "fold") and len(outs) >= 2 and rng.random() < 0.3:
                p["cs"], p["ck"] = 98, rng.randint(1, max(1, len(outs) - 1))
            elif cands:
                c = rng.choice(cands)
                p["cs"], p["ck"] = c[0], c[1]
            else:
                continue
            add(p)
    elif prop == "C15":
        # the dense small grid of the property: every input length 0..6 (and 13) x thread setting x chunk setting
        shapes_ = ["", "m", "f", "o", "l", "mf"]
        srcs_ = ["vec", "iter", "iterx", "range", "slice", "deque"]
        i_ = 0
        for ln in (0, 1, 2, 3, 4, 5, 6, 13):
            for nt_ in (None, 0, 2, 3, 7, 17):
                for cs_ in (None, ("cs", 0), ("cs", 1), ("cs", 2), ("cs", 5), ("cs", 64),
                            ("csmin", 1), ("csmin", 2), ("csmin", 5), ("csmin", 64)):
                    if tier == "quick" and (i_ % 2 == 1) and ln not in (0, 1):
                        i_ += 1
                        continue
                    src = srcs_[i_ % len(srcs_)]
                    sh = shapes_[(i_ // 3) % len(shapes_)]
                    if len(sh) > SRC_MAXLEN[src] or (src in ("slice", "range") and len(sh) > 1):
                        sh = sh[:1]
                    p = gen_prog(rng, src=src, shape=sh, n=ln, nt=nt_, cs=cs_)
                    p["term"] = any_term(rng, src, shape_of(p))
                    add(norm(p), "free" if i_ % 3 else "rand")
                    i_ += 1
        hold_jobs(rng, tier, [lambda r, s_, sh: any_term(r, s_, sh)], add)
        big_find_jobs(rng, tier, add)
        slow_source_jobs(rng, tier, [lambda r, s_, sh: any_term(r, s_, sh)], add)
        lag_jobs(rng, tier, [lambda r, s_, sh: any_term(r, s_, sh)], add)
        capacity_sweep(rng, tier, add, 30)
        single_worker_jobs(rng, tier, add)
        lens = list(range(0, 41)) + [63, 64, 65, 100, 257, 1000]
        nts = [None, 0, 1, 2, 3, 4, 5, 7, 8, 16, 17, 64]
        css = [None, ("cs", 0)] + [("cs", c) for c in (1, 2, 3, 4, 5, 7, 12, 64, 65536, 1 << 20)] + \
              [("csmin", c) for c in (1, 2, 3, 5, 12, 64, 65536, 1 << 20)]
        huge_known = [("csmin", 1, 40), ("csmin", 1, 62), ("csmin", 1, 64), ("cs", 1, 40)]
        for _ in range(n):
            ln = rng.choice(lens)
            big = ln > 64
            p = with_term(rng, lambda r, s, sh: any_term(r, s, sh), n=ln, nt=rng.choice(nts), cs=rng.choice(css),
                          sources=("vec", "iterx", "iter", "range", "slice"), maxlen=(1 if big else 3))
            if rng.random() < 0.25:
                p["ops"] = [o for o in p["ops"] if o["k"] not in ("cs", "csmin")]
                ins = 1 if p["ops"] and p["ops"][0].get("h") else 0
                p["ops"].insert(ins, {"k": "cs", "v": ln + rng.choice([1, 2, 10]), "t": [], "tt": [], "h": 0})
            if p["src"] != "iterx" and rng.random() < 0.12:
                # huge chunk sizes are only meaningful where no per-worker buffer of that size is allocated
                h = rng.choice(huge_known)
                if not (p["src"] == "iter" and h[0] == "cs"):
                    p["ops"] = [o for o in p["ops"] if o["k"] not in ("cs", "csmin")]
                    ins = 1 if p["ops"] and p["ops"][0].get("h") else 0
                    p["ops"].insert(ins, {"k": h[0], "v": h[1], "sh": h[2], "t": [], "tt": [], "h": 0})
            add(p, "free" if (big or rng.random() < 0.7) else "rand")
        # the two recorded findings (see known_findings.json) are exercised so that they stay visible
        for src, h in (("vec", ("cs", 1, 64)), ("range", ("cs", 1, 63)), ("iterx", ("csmin", 1, 64)), ("iterx", ("cs", 1, 64))):
            p = with_term(rng, lambda r, s, sh: {"k": "find", "t": [0, 0, 0, 0, 0, 1]}, n=9, src=src, shape="m", nt=3, cs=h)
            add(p, "free")
    elif prop == "C16":
        # sequences of setters (the terminal must run under the LAST values set, whatever was set before)
        seqs = [[("nt", a), (ck, b), ("nt", c)] for a in (1, 2, 3) for ck in ("cs", "csmin") for b in (1, 2, 3) for c in (1, 2, 3)] + \
               [[(ck, b), ("nt", 1), ("nt", c)] for ck in ("cs", "csmin") for b in (1, 2, 3, 5) for c in (2, 3, 4)] + \
               [[(ck, b), ("nt", a), (ck2, b2)] for a in (1, 2) for ck in ("cs", "csmin") for b in (1, 3) for ck2 in ("cs", "csmin") for b2 in (0, 2)]
        rng.shuffle(seqs)
        for sq in seqs[:(60 if tier == "quick" else len(seqs))]:
            sh = rng.choice(["", "m", "f", "mf", "o"])
            p = gen_prog(rng, src=rng.choice(("vec", "iterx")), shape=sh, nt=None, cs=None, n=rng.choice([8, 13]))
            stages = [o for o in p["ops"] if o["k"] in ("map", "filter", "fmap", "flat")]
            slots = sorted(rng.randrange(len(stages) + 1) for _ in sq)
            ops, si = [], 0
            for j in range(len(stages) + 1):
                while si < len(sq) and slots[si] == j:
                    ops.append({"k": sq[si][0], "v": sq[si][1]})
                    si += 1
                if j < len(stages):
                    ops.append(stages[j])
            p["ops"] = ops
            p["term"] = {"k": rng.choice(["count", "collect_vec", "reduce"]), "op": "add"}
            add(norm(p), "free")
        shapes = [a + b for a in [""] + list("mflo") + [x + y for x in "mflo" for y in "mflo"] for b in "mflo"]
        for i in range(n):
            sh = shapes[i % len(shapes)] if i < 2 * len(shapes) else None
            src = rng.choice(("vec", "iterx") if sh is None or len(sh) == 3 else ("vec", "iterx", "iter", "range", "slice"))
            p = gen_prog(rng, src=src, shape=sh, param_slots="any", sizes=(2, 5, 8, 13))
            p["term"] = any_term(rng, src, shape_of(p))
            add(norm(p), mode_mix(rng, 0.7))
    else:
        raise ValueError(prop)
    return jobs
