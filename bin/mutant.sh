#!/bin/bash
# mutant.sh verify <dir-with-mutK.diff/demoK.rs> <K>   : confirm a seeded change in a scratch worktree
# mutant.sh detect <patch.diff> <Cxx> [more Cxx...]   : apply to /repo, run the checks, undo
set -u
cmd=$1; shift
WT=/tmp/scratch/verify-wt
export CARGO_NET_OFFLINE=true
if [ "$cmd" = verify ]; then
  dir=$1; k=$2
  diff=$dir/mut$k.diff; demo=$dir/demo$k.rs
  [ -f "$diff" ] || diff=$dir/patch.diff
  [ -f "$demo" ] || demo=$(ls $dir/demo*.rs | head -1)
  if [ ! -d $WT ]; then git -C /repo worktree add -q --detach $WT HEAD || exit 2; fi
  git -C $WT checkout -q --detach $(git -C /repo rev-parse HEAD) && git -C $WT checkout -q -- . && git -C $WT clean -qfd -e target
  cp $demo $WT/tests/zz_demo.rs
  echo "== demo on clean tree (must pass)"
  (cd $WT && cargo test --offline --test zz_demo 2>&1 | grep -E '^test result|error' | head -3)
  git -C $WT apply $diff || { echo "PATCH DOES NOT APPLY"; exit 3; }
  echo "== demo with change (must fail)"
  (cd $WT && cargo test --offline --test zz_demo 2>&1 | grep -E '^test result|error(\[|:)' | head -3)
  rm $WT/tests/zz_demo.rs
  echo "== suite with change (must pass)"
  (cd $WT && cargo test --workspace --no-fail-fast --offline 2>&1 | grep -E '^test result' | awk '{p+=$4; f+=$6} END {print "passed",p,"failed",f}')
  git -C $WT checkout -q -- . ; git -C $WT clean -qfd -e target
elif [ "$cmd" = detect ]; then
  diff=$1; shift
  git -C /repo apply $diff || { echo "PATCH DOES NOT APPLY"; exit 3; }
  for p in "$@"; do
    s=$(date +%s)
    out=$(cd /verif && bin/check $p --tier ${TIER:-quick} 2>&1); rc=$?
    e=$(date +%s)
    echo "$p rc=$rc $((e-s))s $(echo "$out" | grep -c '^VIOLATION') violations; clauses: $(echo "$out" | grep -o 'clause=[A-Za-z0-9_]*' | sort | uniq -c | tr '\n' ' ')"
    echo "$out" | grep -E 'TOOL-ERROR|Traceback' | head -3
  done
  git -C /repo checkout -- .
fi
