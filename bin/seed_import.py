#!/usr/bin/env python3
"""seed_import.py <batch.log> : turns the output of bin/mutant.sh verify/detect runs (one block per
seeded change, as written by the campaign loops) into /verif/seeded/<id>/ directories.
A change is imported only if it was confirmed (demo passes clean, fails with the patch, suite
passes with the patch)."""
import json, os, re, shutil, sys

log = open(sys.argv[1]).read()
blocks = re.split(r"^##### ", log, flags=re.M)[1:]
info = {}
for b in blocks:
    head, _, body = b.partition("\n")
    m = re.match(r"(C\d\d)-(\d) (verify|detect)", head)
    if not m:
        continue
    mid = f"{m.group(1)}-{m.group(2)}"
    d = info.setdefault(mid, {})
    if m.group(3) == "verify":
        res = re.findall(r"test result: (ok|FAILED)", body)
        suite = re.search(r"passed (\d+) failed (\d+)", body)
        d["verify"] = {"demo_clean": res[0] if res else None, "demo_patched": res[1] if len(res) > 1 else None,
                       "suite": suite.groups() if suite else None}
    else:
        r = re.search(r"(C\d\d) rc=(\d+) (\d+)s (\d+) violations; clauses:\s*(.*)", body)
        if r:
            d["detect"] = {"prop": r.group(1), "rc": int(r.group(2)), "secs": int(r.group(3)), "violations": int(r.group(4)),
                           "clauses": re.findall(r"clause=(\w+)", r.group(5))}
for mid, d in sorted(info.items()):
    v, t = d.get("verify"), d.get("detect")
    ok = v and v["demo_clean"] == "ok" and v["demo_patched"] == "FAILED" and v["suite"] and v["suite"][1] == "0"
    print(mid, "confirmed" if ok else f"NOT CONFIRMED {v}", t)
    if not ok or not t:
        continue
    p, k = mid.split("-")
    src = f"/tmp/scratch/out-{p}"
    dst = f"/verif/seeded/{mid}"
    os.makedirs(dst, exist_ok=True)
    shutil.copy(f"{src}/mut{k}.diff", f"{dst}/patch.diff")
    shutil.copy(f"{src}/demo{k}.rs", f"{dst}/demo.rs")
    json.dump({"id": mid, "property": p,
               "author": "independent sub-agent (saw only the property text and a scratch worktree)",
               "what_and_needs": open(f"{src}/meta{k}.txt").read(),
               "confirmed": {"how": "bin/mutant.sh verify: scratch worktree of /repo HEAD; demo passes on the clean tree, fails with the patch; cargo test --workspace --no-fail-fast --offline with the patch",
                             "suite_passed_failed": v["suite"], "result": "confirmed"},
               "detection": {"command": f"git -C /repo apply patch.diff && bin/check {p} --tier quick; git -C /repo checkout -- .",
                             "exit": t["rc"], "violations": t["violations"], "clauses": sorted(set(t["clauses"])),
                             "caught": t["rc"] == 1, "seconds": t["secs"]}},
              open(f"{dst}/meta.json", "w"), indent=1)
