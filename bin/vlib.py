"""Shared machinery of the checks: program generator, harness runner, TLC runner, evidence."""
import json, os, random, re, shutil, subprocess, sys, time, hashlib

VERIF = os.path.dirname(os.path.dirname(os.path.abspath(__file__)))
SPEC = os.path.join(VERIF, "spec")
HARNESS = os.path.join(VERIF, "harness")
OUT = os.path.join(VERIF, "out")
ORXH = os.path.join(HARNESS, "target", "debug", "orxh")
V = 6
FANMAX = 3

CLAUSES = {
    "C01": ["C01_OrderedCollect"],
    "C02": ["C02_FirstMatch"],
    "C03": ["C03_ReduceAll"],
    "C04": ["C04_Count", "C04_ForEach"],
    "C05": ["C05_NeverMoreThanSequential", "C05_ExactlySequential", "C05_NoReentrancy", "C05_SourceInOrder"],
    "C06": ["C06_AppendsAfterPrefix"],
    "C07": ["C07_Permutation"],
    "C08": ["C08_LiveWorkers", "C08_Spawned", "C08_ThreadsPerClosure", "C08_ReduceOpThreads", "C08_SequentialOnCaller"],
    "C09": ["C09_SequentialValue", "C09_StageOrder", "C09_OnCaller"],
    "C10": ["C10_BoundedAfterMatch", "C10_Terminates", "C10_SequentialStopsAtMatch"],
    "C11": ["C11_ChunkGiven", "C11_AlignedBlockOneThread", "C11_BurstIsChunk"],
    "C12": ["C12_ParamsPropagate"],
    "C13": ["C13_NoLeakNoDouble"],
    "C14": ["C14_PanicPropagates", "C14_NoBadDrop", "C14_NoHangNoAbort"],
    "C15": ["C15_NoPanic", "C15_SameAsSequential", "C15_NoAbort"],
    "C16": ["C16_LazyBuild", "C16_LazySource", "C16_LazyUntilTerminal", "C16_TerminalParams"],
}


def log(*a):
    print(*a, file=sys.stderr, flush=True)


class ToolError(Exception):
    pass


# ------------------------------------------------------------------ build

def build_harness():
    """(Re)builds the harness against /repo's current working tree, hooks on."""
    t0 = time.time()
    gen = os.path.join(HARNESS, "gen_shapes.py")
    shapes = os.path.join(HARNESS, "src", "shapes.rs")
    if not os.path.exists(shapes) or os.path.getmtime(shapes) < os.path.getmtime(gen):
        subprocess.check_call([sys.executable, gen, shapes])
    env = dict(os.environ, CARGO_NET_OFFLINE="true")
    r = subprocess.run(["cargo", "build", "--offline"], cwd=HARNESS, env=env,
                       stdout=subprocess.PIPE, stderr=subprocess.STDOUT, text=True)
    if r.returncode != 0:
        log(r.stdout[-4000:])
        raise ToolError("harness build failed (the tree under /repo does not compile with verif-hooks)")
    return time.time() - t0


# ------------------------------------------------------------------ program generator

SRC_MAXLEN = {"vec": 3, "iter": 3, "iterx": 3, "slice": 2, "range": 2, "inf": 2, "deque": 1, "list": 1, "btree": 1,
              "vecadv": 2, "dequeref": 1, "btreeref": 1, "hashset": 1, "hashsetref": 1, "heap": 1, "heapref": 1, "listref": 1}
HIDDEN_CONV = ("slice", "range", "dequeref", "btreeref", "hashsetref", "heapref", "listref")
UNORDERED_SRC = ("hashset", "hashsetref", "heap", "heapref")   # iteration order known only from the instance
CORE_TERMS = ["none", "collect_vec", "collect", "collect_into", "collect_x", "count", "for_each", "reduce", "find", "first", "any", "all"]
FULL_ONLY = ["fold", "sum", "min", "max", "min_by", "max_by", "min_by_key", "max_by_key"]
EARLY = ["find", "first", "any", "all"]
IDX = ["find_idx", "first_idx"]


def full_ok(src, shape):
    if src in ("vec", "iter", "iterx"):
        return len(shape) <= 1
    if src in ("slice", "range", "vecadv"):
        return len(shape) == 0
    return False


def idx_ok(src, shape):
    return src != "inf" and src not in UNORDERED_SRC and re.fullmatch(r"m*f*", shape) is not None


def term_ok(src, shape, k, tk=""):
    if src == "inf":
        return k in EARLY
    if k in IDX:
        return idx_ok(src, shape)
    if k in FULL_ONLY:
        return full_ok(src, shape)
    if k == "collect_into" and tk == "splitlin":
        return full_ok(src, shape)
    return k in CORE_TERMS


def rnd_table(rng, kind):
    """Random finite table of a stage. Tables are biased towards letting most elements through:
    with three stages in a row, unbiased tables leave almost nothing to order, merge or count."""
    if kind == "map":
        return {"k": "map", "t": [rng.randrange(V) for _ in range(V)]}
    if kind == "filter":
        d = rng.choice([0.0, 0.5, 0.7, 0.85, 0.85, 1.0, 1.0])
        return {"k": "filter", "t": [1 if rng.random() < d else 0 for _ in range(V)]}
    if kind == "fmap":
        d = rng.choice([0.0, 0.5, 0.7, 0.85, 1.0, 1.0])
        return {"k": "fmap", "t": [rng.randrange(V) if rng.random() < d else -1 for _ in range(V)]}
    if kind == "flat":
        lo, mx = rng.choice([(0, 1), (0, 2), (1, 2), (1, FANMAX), (0, FANMAX), (1, 1)])
        return {"k": "flat", "tt": [[rng.randrange(V) for _ in range(rng.randint(lo, mx))] for _ in range(V)]}
    raise ValueError(kind)


KIND = {"m": "map", "f": "filter", "l": "flat", "o": "fmap"}

# generator-side mirror of the type table: which kernel family a shape ends in (used only to
# spread the generated programs evenly over the kernels, never for a verdict)
_T = {
    "Empty": {"m": "Map", "f": "Fil", "l": "FlatMap", "o": "FilterMap"},
    "Map": {"m": "Map", "f": "MapFil", "l": "FlatMap", "o": "FilterMap"},
    "Fil": {"m": "FilterMap", "f": "Fil", "l": "FlatMap", "o": "FilterMap"},
    "MapFil": {"m": "FilterMap", "f": "MapFil", "l": "FlatMap", "o": "FilterMap"},
    "FilterMap": {"m": "FilterMap", "f": "FilterMapFil", "l": "FlatMap", "o": "FilterMap"},
    "FilterMapFil": {"m": "FilterMap", "f": "FilterMapFil", "l": "FlatMap", "o": "FilterMap"},
    "FlatMap": {"m": "FlatMap", "f": "FlatMapFil", "l": "FlatMap", "o": "FilterMap"},
    "FlatMapFil": {"m": "Map", "f": "FlatMapFil", "l": "FlatMap", "o": "FilterMap"},
}
FAMILY = {"Empty": "empty", "Map": "map", "Fil": "mapfil", "MapFil": "mapfil", "FilterMap": "filtermap",
          "FilterMapFil": "filtermap", "FlatMap": "flatmap", "FlatMapFil": "flatmap"}


def final_type(shape, start="Empty"):
    ty = start
    for c in shape:
        ty = _T[ty][c]
    return ty


def shapes_by_family(maxlen, start="Empty", by_type=False):
    import itertools
    fam = {}
    for n in range(maxlen + 1):
        for t in itertools.product("mflo", repeat=n):
            sh = "".join(t)
            ty = final_type(sh, start)
            fam.setdefault(ty if by_type else FAMILY[ty], []).append(sh)
    return fam


def gen_input(rng, src, n):
    xs = [rng.randrange(V) for _ in range(n)]
    if src in ("btree", "btreeref"):
        xs.sort()
    return xs


def gen_prog(rng, src=None, shape=None, n=None, term=None, nt="rand", cs="rand", param_slots="first",
             sources=("vec", "iter", "iterx", "slice", "range", "deque", "list", "btree", "vecadv", "dequeref", "btreeref",
                      "hashset", "hashsetref", "heap", "heapref", "listref"),
             sizes=(0, 1, 2, 3, 5, 8, 13, 24, 40), maxlen=3):
    src = src or rng.choice(sources)
    if n is None:
        n = rng.choice(sizes)
    ml = min(SRC_MAXLEN[src], maxlen)
    if shape is None:
        if rng.random() < 0.6:
            # pick the kernel family first, then a shape that ends in it
            fam = shapes_by_family(ml, "Map" if src in HIDDEN_CONV else "Empty")
            shape = rng.choice(fam[rng.choice(sorted(fam))])
        else:
            ln = rng.choice([x for x in [0, 1, 1, 2, 2, 2, 3, 3, 3] if x <= ml])
            shape = "".join(rng.choice("mflo") for _ in range(ln))
    stages = [rnd_table(rng, KIND[c]) for c in shape]
    # parameter ops
    if nt == "rand":
        nt = rng.choice([None, None, 1, 2, 2, 3, 3, 4, 5, 8, 32, 0])
    if cs == "rand":
        c = rng.choice([None, None, ("cs", 1), ("cs", 1), ("cs", 2), ("cs", 2), ("cs", 3), ("cs", 5), ("cs", 64),
                        ("csmin", 1), ("csmin", 2), ("csmin", 3), ("csmin", 64), ("cs", n + 1), ("cs", 0)])
    else:
        c = cs
    pops = []
    if nt is not None:
        pops.append({"k": "nt", "v": nt})
    if c is not None:
        pops.append({"k": c[0], "v": c[1], "sh": (c[2] if len(c) > 2 else 0)})
    rng.shuffle(pops)
    nslots = len(shape) + 1
    slots = [[] for _ in range(nslots)]
    for o in pops:
        if param_slots == "first":
            slots[0].append(o)
        else:
            slots[rng.randrange(nslots)].append(o)
    ops = []
    if src in HIDDEN_CONV:
        ops.append({"k": "map", "t": list(range(V)), "h": 1})
    for i in range(nslots):
        ops.extend(slots[i])
        if i < len(stages):
            ops.append(stages[i])
    p = {"src": src, "input": gen_input(rng, src, n), "ops": ops, "term": term or {"k": "collect_vec"}, "cs": -1, "ck": 0}
    if src == "vecadv":
        p["adv"] = rng.randint(0, min(3, n))
    norm(p)
    return p


def norm(p):
    for o in p["ops"]:
        o.setdefault("t", [])
        o.setdefault("tt", [])
        o.setdefault("v", 0)
        o.setdefault("h", 0)
        o.setdefault("sh", 0)
    t = p["term"]
    t.setdefault("t", [])
    t.setdefault("op", "")
    t.setdefault("tk", "")
    t.setdefault("pre", [])
    t.setdefault("cap", 0)
    p.setdefault("cs", -1)
    p.setdefault("ck", 0)
    p.setdefault("n", 0)
    p.setdefault("adv", 0)
    return p


def shape_of(p):
    inv = {"map": "m", "filter": "f", "flat": "l", "fmap": "o"}
    return "".join(inv[o["k"]] for o in p["ops"] if o["k"] in inv and not o.get("h"))


def pred_table(rng):
    d = rng.choice([0.0, 0.17, 0.17, 0.34, 0.5, 1.0])
    return [1 if rng.random() < d else 0 for _ in range(V)]


def mk_job(jid, p, mode, rng, sched=None, logcalls=1, spin=0, timeout_ms=60000, track=1, sticky=None, sleep_us=0, hold_workers=0, hold_pos=-1):
    j = {"id": jid, "mode": mode, "seed": rng.randrange(1 << 30), "sticky": sticky if sticky is not None else rng.choice([0.0, 0.0, 0.5, 0.9]),
         "sched": sched or [], "logcalls": logcalls, "spin": spin, "timeout_ms": timeout_ms, "track": track, "sleep_us": sleep_us, "hold_workers": hold_workers, "hold_pos": hold_pos, "p": p}
    return j


# ------------------------------------------------------------------ running the harness

def run_jobs(jobs, workdir, tag, shards=8):
    """Runs jobs in `shards` parallel harness processes; returns list of trace paths.
    A process that dies (abort / signal) gets an `abort` event appended for the program it was
    running and the remaining jobs of its shard are run by a fresh process."""
    os.makedirs(workdir, exist_ok=True)
    parts = [jobs[i::shards] for i in range(shards)]
    parts = [x for x in parts if x]
    procs = []
    for i, part in enumerate(parts):
        procs.append(_start(part, workdir, f"{tag}-{i}", 0))
    traces = []
    info = {"hangs": 0, "aborts": 0, "jobs": len(jobs)}
    while procs:
        nxt = []
        for (pr, part, base, gen, jf, tf) in procs:
            rc = pr.wait()
            traces.append(tf)
            if rc == 0:
                continue
            done_ids = set()
            last = None
            with open(tf) as f:
                for line in f:
                    if '"e":"end"' in line:
                        done_ids.add(json.loads(line)["run"])
                    elif '"e":"prog"' in line:
                        last = json.loads(line)["run"]
            if last is None and not done_ids:
                raise ToolError(f"harness exited with {rc} before running any program of {jf}")
            if rc == 3:
                info["hangs"] += 1
            else:
                info["aborts"] += 1
                with open(tf, "a") as f:
                    f.write(json.dumps({"i": 0, "e": "abort", "rc": rc}) + "\n")
            rest = [j for j in part if j["id"] not in done_ids and j["id"] != last]
            if rc == 2:
                raise ToolError(f"harness failed on {jf}")
            if rest:
                nxt.append(_start(rest, workdir, base, gen + 1))
        procs = nxt
    return traces, info


def _start(part, workdir, base, gen):
    jf = os.path.join(workdir, f"jobs-{base}-{gen}.ndjson")
    tf = os.path.join(workdir, f"trace-{base}-{gen}.ndjson")
    with open(jf, "w") as f:
        for j in part:
            f.write(json.dumps(j) + "\n")
    pr = subprocess.Popen([ORXH, "run", "--in", jf, "--out", tf], stdout=subprocess.DEVNULL, stderr=subprocess.DEVNULL)
    return (pr, part, base, gen, jf, tf)


# ------------------------------------------------------------------ TLC

TLC_CP = "/opt/veriftools/tla/tla2tools.jar:/opt/veriftools/tla/CommunityModules-deps.jar"


def tlc(module, cfg, workdir, env=None, workers=1, extra=None, timeout=1800, heap="4g", deque=True):
    meta = os.path.join(workdir, "tlc-" + hashlib.md5((module + cfg + str(time.time()) + str(os.getpid())).encode()).hexdigest()[:10])
    opts = ["-Xss1g", f"-Xmx{heap}", "-XX:+UseParallelGC"]
    if deque:
        opts.append("-Dtlc2.tool.queue.IStateQueue=StateDeque")
    cmd = ["java"] + opts + ["-cp", TLC_CP, "tlc2.TLC", "-workers", str(workers), "-metadir", meta,
                              "-cleanup", "-noGenerateSpecTE", "-config", cfg] + (extra or []) + [module]
    e = dict(os.environ)
    e.pop("JAVA_TOOL_OPTIONS", None)
    if env:
        e.update(env)
    t0 = time.time()
    try:
        r = subprocess.run(cmd, cwd=SPEC, env=e, stdout=subprocess.PIPE, stderr=subprocess.STDOUT, text=True, timeout=timeout)
    except subprocess.TimeoutExpired:
        shutil.rmtree(meta, ignore_errors=True)
        raise ToolError(f"TLC timed out on {module}")
    shutil.rmtree(meta, ignore_errors=True)
    return r.returncode, r.stdout, time.time() - t0


def tlc_start(module, cfg, workdir, env=None, workers=1, extra=None, heap="3g", deque=True):
    meta = os.path.join(workdir, "tlc-" + hashlib.md5((module + cfg + str(time.time()) + str(env)).encode()).hexdigest()[:10])
    opts = ["-Xss1g", f"-Xmx{heap}", "-XX:+UseParallelGC"]
    if deque:
        opts.append("-Dtlc2.tool.queue.IStateQueue=StateDeque")
    cmd = ["java"] + opts + ["-cp", TLC_CP, "tlc2.TLC", "-workers", str(workers), "-metadir", meta,
                              "-cleanup", "-noGenerateSpecTE", "-config", cfg] + (extra or []) + [module]
    e = dict(os.environ)
    e.pop("JAVA_TOOL_OPTIONS", None)
    if env:
        e.update(env)
    pr = subprocess.Popen(cmd, cwd=SPEC, env=e, stdout=subprocess.PIPE, stderr=subprocess.STDOUT, text=True)
    return pr, meta


VIOL_RE = re.compile(r'^"?VIOL\|([A-Za-z0-9_]+)\|(\d+)\|(\d+)\|(.*?)"?$')
CONS_RE = re.compile(r'^<<"TRACE-CONSUMED", (\d+), (\d+), (\d+), (\d+)>>$')


def monitor(traces, clauses, workdir, par=8, timeout=1800):
    """Validates every trace file with TraceMon (one TLC per file, `par` at a time).
    Returns (violations, stats). violation = dict(clause, run, line, detail, trace)."""
    cfgf = os.path.join(workdir, "moncfg.json")
    with open(cfgf, "w") as f:
        f.write(json.dumps({"clauses": clauses}) + "\n")
    viols, stats = [], {"events": 0, "runs": 0, "terminals": 0, "tlc_s": 0.0, "files": 0}
    pending = [t for t in traces if os.path.getsize(t) > 0]
    running = []
    t0 = time.time()
    try:
        while pending or running:
            while pending and len(running) < par:
                tf = pending.pop()
                pr, meta = tlc_start("TraceMon.tla", "TraceMon.cfg", workdir, env={"TRACE": tf, "MONCFG": cfgf})
                running.append((pr, meta, tf, time.time()))
            pr, meta, tf, ts = running.pop(0)
            try:
                out, _ = pr.communicate(timeout=max(1, timeout - (time.time() - ts)))
            except subprocess.TimeoutExpired:
                pr.kill()
                raise ToolError(f"TLC timed out validating {tf}")
            shutil.rmtree(meta, ignore_errors=True)
            consumed = False
            parsed, reported = 0, -1
            for line in out.splitlines():
                mm = VIOL_RE.match(line.strip())
                if mm:
                    parsed += 1
                    viols.append({"clause": mm.group(1), "run": int(mm.group(2)), "line": int(mm.group(3)),
                                  "detail": mm.group(4).replace('\\"', '"'), "trace": tf})
                mc = CONS_RE.match(line.strip())
                if mc:
                    consumed = True
                    stats["events"] += int(mc.group(1))
                    stats["runs"] += int(mc.group(2))
                    stats["terminals"] += int(mc.group(3))
                    reported = int(mc.group(4))
            if not consumed:
                log(out[-3000:])
                raise ToolError(f"TraceMon did not consume {tf} (monitor or trace malformed)")
            if parsed != reported:
                # the monitor counts the violations it printed: a mismatch means the driver lost lines
                raise ToolError(f"TraceMon reported {reported} violations for {tf} but {parsed} lines were parsed")
            stats["files"] += 1
    finally:
        for (pr, meta, tf, ts) in running:
            try:
                pr.kill()
            except Exception:
                pass
            shutil.rmtree(meta, ignore_errors=True)
    stats["tlc_s"] = round(time.time() - t0, 2)
    return viols, stats


MC_RE = re.compile(r"(\d+) states generated, (\d+) distinct states found")


def model_check(module, cfg, workdir, workers=8, timeout=3600, extra=None, heap="8g"):
    rc, out, dt = tlc(module, cfg, workdir, workers=workers, timeout=timeout, extra=extra, heap=heap, deque=False)
    mm = None
    for mm in MC_RE.finditer(out):
        pass
    gen, dist = (int(mm.group(1)), int(mm.group(2))) if mm else (0, 0)
    ok = rc == 0 and "No error has been found" in out
    return {"ok": ok, "rc": rc, "generated": gen, "distinct": dist, "wall_s": round(dt, 2), "out": out}


# ------------------------------------------------------------------ known findings / verdicts

def load_known():
    p = os.path.join(VERIF, "known_findings.json")
    if not os.path.exists(p):
        return []
    return json.load(open(p))["findings"]


def classify(viol, known):
    """Returns the matching known finding (status == 'known') or None."""
    for k in known:
        if k.get("status") != "known":
            continue
        if viol["clause"] not in k.get("clauses", [k["clause"]]):
            continue
        if all(s in viol["detail"] for s in k.get("detail_contains", [])):
            return k
    return None


def program_of(trace, run):
    with open(trace) as f:
        for line in f:
            if '"e":"prog"' in line:
                ev = json.loads(line)
                if ev["run"] == run:
                    return ev
    return None


def events_of(trace, run):
    evs, on = [], False
    with open(trace) as f:
        for line in f:
            if '"e":"prog"' in line:
                on = json.loads(line)["run"] == run
            if on:
                evs.append(json.loads(line))
    return evs


def write_replay(prop, viol, jobs_by_id):
    d = os.path.join(OUT, "replay")
    os.makedirs(d, exist_ok=True)
    job = jobs_by_id.get(viol["run"])
    evs = events_of(viol["trace"], viol["run"])
    end = [e for e in evs if e.get("e") == "end"]
    if job is not None and end and job["mode"] != "free" and end[0].get("grants"):
        job = dict(job, mode="replay", sched=end[0]["grants"])
    h = hashlib.md5(json.dumps([viol["clause"], job], sort_keys=True).encode()).hexdigest()[:10]
    path = os.path.join(d, f"{prop}-{h}.json")
    with open(path, "w") as f:
        json.dump({"property": prop, "clause": viol["clause"], "detail": viol["detail"], "line": viol["line"],
                   "job": job, "events": evs[:400]}, f)
    return path


def write_evidence(prop, tier, seed, coverage, wall, violations, assumptions):
    os.makedirs(os.path.join(VERIF, "evidence"), exist_ok=True)
    ev = {"property_id": prop, "tier": tier, "seed": seed, "level": "model_checking", "coverage": coverage,
          "assumptions": assumptions, "wall_s": round(wall, 2), "violations": violations}
    with open(os.path.join(VERIF, "evidence", f"{prop}.json"), "w") as f:
        json.dump(ev, f, indent=1)


# ------------------------------------------------------------------ how often each clause really applied

COLLECT = ("collect_vec", "collect", "collect_into")
FINDS = ("find", "first", "any", "all", "find_idx", "first_idx")
REDUCES = ("reduce", "fold", "sum", "min", "max", "min_by", "max_by", "min_by_key", "max_by_key")


def schedule_stats(traces):
    """How many distinct schedules (grant sequences) the deterministic scheduler actually drove the
    library through, how long they were, and how many replays diverged. Evidence only."""
    seen, steps, diverged, sched_runs = set(), 0, 0, 0
    for tf in traces:
        prog = None
        with open(tf) as f:
            for line in f:
                if '"e":"prog"' in line:
                    try:
                        prog = json.loads(line)
                    except Exception:
                        prog = None
                elif '"e":"end"' in line and prog is not None and prog.get("mode") != "free":
                    ev = json.loads(line)
                    sched_runs += 1
                    g = ev.get("grants") or []
                    steps += len(g)
                    if ev.get("dstep", -1) >= 0:
                        diverged += 1
                    seen.add((json.dumps(prog["p"], sort_keys=True), tuple(g)))
    return {"scheduled_runs": sched_runs, "distinct_program_schedule_pairs": len(seen),
            "scheduler_steps": steps, "replays_that_diverged": diverged}


def clause_applications(traces, clauses):
    """Counts, per clause, the events at which its antecedent held (so that the clause was
    really evaluated, not vacuously true). Evidence only; computed from the recorded traces."""
    n = {c: 0 for c in clauses}
    for tf in traces:
        p, built = None, False
        with open(tf) as f:
            for line in f:
                try:
                    ev = json.loads(line)
                except Exception:
                    continue
                e = ev.get("e")
                if e == "prog":
                    p, built = ev["p"], False
                    par = {o["k"]: o["v"] for o in p["ops"] if o["k"] in ("nt", "cs", "csmin")}
                    nt1 = par.get("nt") == 1
                    exact = "cs" in par and par["cs"] > 0
                    continue
                if p is None:
                    continue
                k = p["term"]["k"]
                nocrash = p.get("cs", -1) < 0

                def hit(c):
                    if c in n:
                        n[c] += 1
                if e == "built":
                    built = True
                    hit("C16_LazyUntilTerminal")
                elif e == "te":
                    if nocrash:
                        hit("C15_NoPanic"); hit("C15_SameAsSequential")
                        if k in COLLECT and not p["term"]["pre"]:
                            hit("C01_OrderedCollect")
                        if k in FINDS:
                            hit("C02_FirstMatch")
                        if k in REDUCES:
                            hit("C03_ReduceAll")
                        if k == "count":
                            hit("C04_Count")
                        if k == "for_each":
                            hit("C04_ForEach")
                        if k == "collect_into":
                            hit("C06_AppendsAfterPrefix")
                        if k == "collect_x":
                            hit("C07_Permutation")
                        if k not in FINDS:
                            hit("C05_ExactlySequential")
                        if nt1:
                            hit("C09_SequentialValue"); hit("C09_StageOrder")
                            if k in FINDS:
                                hit("C10_SequentialStopsAtMatch")
                    else:
                        hit("C14_PanicPropagates")
                elif e == "call":
                    hit("C05_NeverMoreThanSequential"); hit("C08_ThreadsPerClosure")
                    if nt1:
                        hit("C09_OnCaller"); hit("C08_SequentialOnCaller")
                    if k in FINDS and ev.get("a", 0) > 0:
                        hit("C10_BoundedAfterMatch")
                    if exact and ev.get("a", 0) > 0:
                        hit("C11_AlignedBlockOneThread")
                elif e == "wbegin":
                    hit("C08_LiveWorkers")
                    if exact:
                        hit("C11_ChunkGiven")
                elif e in ("pre_decide", "pre_chunk", "before_join"):
                    hit("C08_Spawned")
                elif e == "red":
                    hit("C08_ReduceOpThreads")
                elif e == "nx":
                    hit("C05_SourceInOrder"); hit("C05_NoReentrancy")
                    if exact:
                        hit("C11_BurstIsChunk")
                elif e == "par":
                    hit("C12_ParamsPropagate")
                elif e == "tok":
                    hit("C13_NoLeakNoDouble" if nocrash else "C14_NoBadDrop")
                elif e == "op":
                    hit("C16_LazyBuild" if ev.get("k") != "src" else "C16_LazySource")
                elif e == "run_begin" and built:
                    hit("C16_TerminalParams")
                elif e in ("hang", "abort"):
                    hit("C14_NoHangNoAbort"); hit("C10_Terminates"); hit("C15_NoAbort")
    return n
