"""Which bounded instances of the specification TLC checks per property, which TLC-generated
behaviours are replayed in the library, and the (non-alarming) strict conformance pass."""
import json, os, random, re, shutil, subprocess, time
from vlib import *

ALL_INV = ["TypeOK", "P_OrderedCollect", "P_Permutation", "P_Count", "P_FirstMatch", "P_Sequential",
           "P_AtMostOnce", "P_ExactlyOnce", "P_BuffersSorted", "P_ThreadBound", "P_BoundedAfterSkip",
           "P_ExactPulls", "P_DisjointPulls"]


def cfg_text(spec, consts, invs=(), props=(), extra=""):
    lines = [f"SPECIFICATION {spec}", "CONSTANTS"]
    for k, v in consts.items():
        lines.append(f"  {k} {v}")
    for i in invs:
        lines.append(f"INVARIANT {i}")
    for p in props:
        lines.append(f"PROPERTY {p}")
    lines.append("CHECK_DEADLOCK FALSE")
    if extra:
        lines.append(extra)
    return "\n".join(lines) + "\n"


def S(xs):
    return "= {" + ", ".join(json.dumps(x) if isinstance(x, str) else str(x) for x in xs) + "}"


def parrun_consts(NN=4, MaxW=3, srcs=("vec", "iterx"), terms=("collect_vec",), nts=(2, 3), css="Cs_1_2", fans="Fans_012", crashes="NoCrash", kinds=("flat",)):
    return {"MaxW": f"= {MaxW}", "Avail": "= 16", "NN": f"= {NN}", "Srcs": S(srcs), "Terms": S(terms),
            "Nts": S(nts), "Css": f"<- {css}", "Fans": f"<- {fans}", "Crashes": f"<- {crashes}", "Kinds": S(kinds)}


# per property: list of (name, module, consts, invariants, temporal properties)
def plan(prop, tier):
    q = tier == "quick"
    NN = 4 if q else 5
    W = 3 if q else 4
    nts = (2, 3) if q else (2, 3, 4)
    P = []

    def par(name, terms, invs, fans="Fans_012", css="Cs_1_2", srcs=("vec", "iterx"), nts_=None, NN_=None, live=True, W_=None, crashes="NoCrash"):
        P.append((name, "MC_ParRun.tla",
                  parrun_consts(NN_ or NN, W_ or W, srcs, terms, nts_ or nts, css, fans, crashes),
                  ["TypeOK"] + invs, ["P_Terminates"] if live else []))

    if prop == "C01":
        par("collect(bag+merge)", ("collect_vec",), ["P_OrderedCollect", "P_BuffersSorted", "P_AtMostOnce", "P_ExactlyOnce", "P_DisjointPulls"])
        P.append(("k-way heap merge, transcribed", "MC_Merge.tla", {"NK": "= 5" if q else "= 7", "NV": "= 3"}, ["SortedAndComplete", "ReadAtMostOnce", "AllMovedOut"], ["Terminates"]))
    elif prop == "C02":
        par("find", ("find",), ["P_FirstMatch", "P_AtMostOnce", "P_BoundedAfterSkip"], fans="Fans_find", srcs=("vec", "iter", "iterx"))
    elif prop == "C03":
        par("reduce(free monoid)", ("reduce",), ["P_Permutation", "P_AtMostOnce", "P_ExactlyOnce"])
    elif prop == "C04":
        par("count", ("count", "for_each"), ["P_Count", "P_AtMostOnce", "P_ExactlyOnce"])
    elif prop == "C05":
        par("all kernels", ("collect_vec", "collect_x", "count", "reduce", "find"), ["P_AtMostOnce", "P_ExactlyOnce", "P_DisjointPulls"],
            NN_=(3 if q else 4), fans="Fans_find")
        P.append(("turnstile of by-value iterator sources", "MC_Source.tla", source_consts(q), ["TypeOK", "MutualExclusion", "EachOnce", "InOrder", "NothingLost"], ["Quiesces", "NothingAfterComplete"]))
    elif prop == "C06":
        par("collect(bag+merge)", ("collect_vec",), ["P_OrderedCollect", "P_BuffersSorted"], css="Cs_all" if not q else "Cs_min_auto", NN_=4)
        P.append(("collect_into targets", "MC_CollectInto.tla", {}, ["AppendsAfterPrefix"], []))
    elif prop == "C07":
        par("collect_x", ("collect_x",), ["P_Permutation", "P_AtMostOnce", "P_ExactlyOnce"])
    elif prop == "C08":
        par("thread bound", ("collect_vec", "find", "count"), ["P_ThreadBound", "P_Sequential"], nts_=(1, 2, 3) if q else (1, 2, 3, 4), NN_=(3 if q else 4), fans="Fans_find", css="Cs_1_2")
        par("thread bound, more threads than a lag period", ("count",), ["P_ThreadBound"], nts_=(6,), NN_=6, W_=6, fans="Fans_1", css="Cs_1_2", srcs=("vec",), live=False)
    elif prop == "C09":
        par("sequential", ("collect_vec", "collect_x", "count", "reduce", "find"), ["P_Sequential"], nts_=(1,), fans="Fans_find", css="Cs_all")
    elif prop == "C10":
        par("find: early exit", ("find",), ["P_BoundedAfterSkip", "P_FirstMatch"], fans="Fans_find", srcs=("vec", "iterx"), css="Cs_1_2_3" if not q else "Cs_1_2", NN_=(4 if q else 5))
        P.append(("unbounded source: termination iff a match exists", "MC_FindInf.tla",
                  {"K": "= 5" if q else "= 7", "NW": "= 3", "C": "= 2", "PublishExit": "= TRUE"}, [], ["TerminatesIfMatch", "RunsForeverOtherwise", "NoPullAfterExit"]))
    elif prop == "C11":
        par("exact chunks", ("collect_vec", "find") if q else ("collect_vec", "count", "find"), ["P_ExactPulls", "P_DisjointPulls"], css="Cs_1_2_3", fans="Fans_012" if q else "Fans_find",
            srcs=("vec", "iterx") if q else ("vec", "iter", "iterx"), NN_=4, nts_=((3,) if q else None), live=not q)
        par("exact chunks across lag periods", ("count",), ["P_ExactPulls", "P_DisjointPulls", "P_ThreadBound"], nts_=(6,), NN_=(6 if q else 7), W_=6, fans="Fans_1", css="Cs_1_2", srcs=("vec",), live=False)
    elif prop == "C12":
        P.append(("builder state machine", "MC_ParApi.tla", {"Depth": "= 4" if not q else "= 3"}, ["TypeOK", "ParamsAreLastSet", "SequentialIffMax1"], []))
    elif prop == "C13":
        P.append(("k-way heap merge: every pair moved out exactly once", "MC_Merge.tla", {"NK": "= 5" if q else "= 7", "NV": "= 3"}, ["ReadAtMostOnce", "AllMovedOut"], ["Terminates"]))
        P.append(("ownership tokens, no panic", "MC_Tokens.tla", tokens_consts(q, False), ["TypeOK", "NoDoubleDrop", "NoBadDrop", "NoLeakAtEnd"], []))
    elif prop == "C14":
        par("protocol with a panicking closure", ("collect_vec", "count", "find"), ["P_PanicPropagates", "P_AtMostOnce", "P_ThreadBound"],
            fans="Fans_012", crashes="CrashStage1", NN_=(3 if q else 4), nts_=((1, 2, 3) if q else (1, 2, 3, 4)))
        P.append(("ownership tokens with a panicking closure", "MC_Tokens.tla", tokens_consts(q, True), ["TypeOK", "NoDoubleDrop", "NoBadDrop", "PanicPropagates"], ["Finishes"]))
    elif prop == "C15":
        P.append(("runner settings arithmetic", "MC_Settings.tla", {"MaxLen": "= 20" if q else "= 72", "MaxT": "= 9" if q else "= 17"}, ["ChunkPositive", "ThreadsPositive", "NextChunkSane", "MinChunkCoversInput", "AutoChunkIsPowerOfTwo"], []))
        par("min/auto chunks", ("collect_vec", "count") if q else ("collect_vec", "count", "find"), ["P_OrderedCollect", "P_Count", "P_FirstMatch", "P_ExactlyOnce"], css="Cs_min_auto" if q else "Cs_all", fans="Fans_012" if q else "Fans_find", NN_=4)
    elif prop == "C16":
        P.append(("builder state machine", "MC_ParApi.tla", {"Depth": "= 4" if not q else "= 3"}, ["TypeOK", "LazyExceptKnownSites", "TerminalUnderCurrentParams"], []))
    return P


def source_consts(q):
    return {"NT": "= 3", "NE": "= 4" if q else "= 5", "Chunks": "= {1, 2}", "EagerSkip": "= FALSE"}


def tokens_consts(q, panic):
    return {"NE": "= 3" if q else "= 4", "NW": "= 2", "C": "= {1, 2}", "Panic": "= TRUE" if panic else "= FALSE", "BagOnPanic": '= "leak"'}


def apalache_spawn_loop(work):
    """Unbounded thread bound: Apalache discharges the inductive invariant of SpawnLoop.tla for every
    max_num_threads >= 1 (initiation, consecution, IndInv => ThreadBound)."""
    t0 = time.time()
    obligations = [("initiation", ["--init=Init", "--inv=IndInv", "--length=0"]),
                   ("consecution", ["--init=IndInv", "--inv=IndInv", "--length=1"]),
                   ("IndInv => ThreadBound", ["--init=IndInv", "--inv=ThreadBound", "--length=0"])]
    done, outs = 0, []
    outdir = os.path.join(work, "apalache")
    for name, args in obligations:
        try:
            r = subprocess.run(["apalache-mc", "check", "--cinit=ConstInit", f"--out-dir={outdir}"] + args + ["SpawnLoop.tla"],
                               cwd=SPEC, stdout=subprocess.PIPE, stderr=subprocess.STDOUT, text=True, timeout=600)
            ok = r.returncode == 0 and "The outcome is: NoError" in r.stdout
            outs.append(r.stdout[-600:])
        except subprocess.TimeoutExpired:
            ok = False
        done += 1 if ok else 0
    shutil.rmtree(outdir, ignore_errors=True)
    return {"name": "SpawnLoop.tla: inductive invariant of the spawn loop for every max_num_threads (Apalache)", "ok": done == len(obligations),
            "rc": 0 if done == len(obligations) else 1, "generated": done, "distinct": done, "wall_s": round(time.time() - t0, 2),
            "bounds": {"MaxT": "any integer >= 1"}, "invariants": ["IndInv", "ThreadBound"], "out": "\n".join(outs),
            "obligations": len(obligations), "discharged": done}


def model_check_for(prop, tier, work):
    res = []
    for (name, module, consts, invs, props) in plan(prop, tier):
        if not os.path.exists(os.path.join(SPEC, module)):
            log(f"  (specification module {module} not present yet: skipped)")
            continue
        spec = "Spec"
        cfgp = os.path.join(work, f"mc-{len(res)}.cfg")
        with open(cfgp, "w") as f:
            f.write(cfg_text(spec, consts, invs, props))
        r = model_check(module, cfgp, work, workers=12, timeout=(900 if tier == "quick" else 7200))
        r["name"] = f"{module}: {name}"
        r["bounds"] = consts
        r["invariants"] = invs + props
        res.append(r)
    if prop == "C08":
        res.append(apalache_spawn_loop(work))
    return res


# ------------------------------------------------------------------ spec -> impl

GEN_FAMILIES = {
    # property: list of (terms, srcs, nts, css, fans, NN, MaxW, tables)
    "C01": [(("collect_vec",), ("vec",), (3,), "Cs_2", "Fans_012", 4, 3), (("collect_vec",), ("iterx",), (2,), "Cs_1_2", "Fans_012", 3, 2),
            (("collect_vec",), ("vec",), (6,), "Cs_min_auto", "Fans_0x", 7, 6)],
    "C02": [(("find",), ("vec",), (3,), "Cs_2", "Fans_find", 4, 3), (("find",), ("iterx", "iter"), (2,), "Cs_1_2", "Fans_find", 3, 2)],
    "C03": [(("reduce",), ("vec",), (3,), "Cs_2", "Fans_012", 4, 3), (("reduce",), ("iterx",), (2,), "Cs_1_2", "Fans_012", 3, 2)],
    "C04": [(("count", "for_each"), ("vec",), (3,), "Cs_2", "Fans_012", 4, 3), (("count",), ("iterx",), (2,), "Cs_1_2", "Fans_012", 3, 2)],
    "C05": [(("collect_vec", "count", "find"), ("iterx", "vec"), (2, 3), "Cs_1_2", "Fans_find", 3, 3)],
    "C06": [(("collect_vec",), ("vec", "iterx"), (2,), "Cs_1_2", "Fans_012", 3, 2)],
    "C07": [(("collect_x",), ("vec",), (3,), "Cs_2", "Fans_012", 4, 3), (("collect_x",), ("iterx",), (2,), "Cs_1_2", "Fans_012", 3, 2)],
    "C08": [(("count", "find"), ("vec",), (2, 3), "Cs_1_2", "Fans_find", 4, 3), (("count",), ("vec",), (6,), "Cs_1_2", "Fans_1", 7, 6)],
    "C10": [(("find",), ("vec", "iterx"), (2, 3), "Cs_1_2", "Fans_find", 4, 3), (("find",), ("vec",), (6,), "Cs_min_auto", "Fans_m", 7, 6)],
    "C11": [(("collect_vec", "count", "reduce", "find"), ("vec", "iter"), (3,), "Cs_1_2_3", "Fans_012", 5, 3), (("count",), ("vec",), (6,), "Cs_1_2", "Fans_1", 7, 6)],
    "C13": [(("collect_vec", "find"), ("vec",), (2, 3), "Cs_1_2", "Fans_find", 3, 3)],
    "C15": [(("collect_vec", "count"), ("vec",), (2, 3), "Cs_min_auto", "Fans_012", 4, 3), (("count",), ("vec",), (6,), "Cs_min_auto", "Fans_1", 8, 6)],
    "C14": [(("collect_vec", "count", "find"), ("vec", "iterx"), (2, 3), "Cs_1_2", "Fans_012", 4, 3, "CrashStage1")],
}

GEN_RE = re.compile(r'^<<"GEN", (".*")>>$')


def generated_jobs(prop, tier, seed, work):
    """Runs TLC on Gen_ParRun in simulation mode (seeded) over the property's program families
    and turns each complete behaviour into a replay job."""
    if prop in ("C12", "C16"):
        return api_jobs(prop, tier, seed, work)
    fams = GEN_FAMILIES.get(prop, [])
    want = 300 if tier == "quick" else 4000
    jobs, stats = [], {"generated_schedules": 0, "distinct_schedules": 0, "tlc_s": 0.0}
    seen = set()
    t0 = time.time()
    for fi, fam in enumerate(fams):
        (terms, srcs, nts, css, fans, NN, W) = fam[:7]
        crashes = fam[7] if len(fam) > 7 else "NoCrash"
        # the replayed programs cover the kernel families: flat_map, filter_map and map+filter kernels
        kinds = ("flat", "fmap", "filter") if fans in ("Fans_012", "Fans_find", "Fans_01", "Fans_0x", "Fans_m") else ("flat",)
        if kinds != ("flat",) and fans == "Fans_012":
            pass
        cfgp = os.path.join(work, f"gen-{fi}.cfg")
        with open(cfgp, "w") as f:
            f.write(cfg_text("GSpec", parrun_consts(NN, W, srcs, terms, nts, css, fans, crashes, kinds), ["Emit"]))
        num = (want // len(fams)) * 3
        rc, out, dt = tlc("Gen_ParRun.tla", cfgp, work, workers=1, timeout=900,
                          extra=["-simulate", f"num={num}", "-depth", "200", "-seed", str(seed)], deque=False)
        for line in out.splitlines():
            mm = GEN_RE.match(line.strip())
            if not mm:
                continue
            d = json.loads(json.loads(mm.group(1)))
            stats["generated_schedules"] += 1
            key = json.dumps(d, sort_keys=True)
            if key in seen:
                continue
            seen.add(key)
            p = norm(d["p"])
            jobs.append({"id": len(jobs) + 1, "mode": "replay", "seed": seed, "sticky": 0.0, "sched": d["sched"],
                         "logcalls": 1, "spin": 0, "timeout_ms": 60000, "track": 1, "p": p})
    rng = random.Random(seed)
    rng.shuffle(jobs)
    jobs = jobs[:want]
    for i, j in enumerate(jobs):
        j["id"] = i + 1
    stats["distinct_schedules"] = len(jobs)
    stats["tlc_s"] = round(time.time() - t0, 2)
    return jobs, stats


API_RE = re.compile(r'^<<"API", (".*")>>$')


def api_jobs(prop, tier, seed, work):
    """Every chain of the builder state machine (MC_ParApi) up to the depth bound is a state of
    TLC's graph; each one (sampled in the quick tier) becomes one implementation run."""
    depth = 3 if tier == "quick" else 4
    cfgp = os.path.join(work, "api.cfg")
    with open(cfgp, "w") as f:
        f.write(cfg_text("Spec", {"Depth": f"= {depth}"}, ["Emit"]))
    t0 = time.time()
    rc, out, dt = tlc("MC_ParApi.tla", cfgp, work, workers=1, timeout=1800, deque=False)
    chains = []
    for line in out.splitlines():
        mm = API_RE.match(line.strip())
        if mm:
            chains.append(json.loads(json.loads(mm.group(1)))["ops"])
    rng = random.Random(seed + 7)
    total = len(chains)
    want = 400 if tier == "quick" else 6000
    rng.shuffle(chains)
    # all short chains, a sample of the long ones
    chains.sort(key=len)
    short = [c for c in chains if len(c) <= 2]
    longer = [c for c in chains if len(c) > 2]
    chains = short + longer[:max(0, want - len(short))]
    jobs = []
    for ops in chains:
        nst = sum(1 for o in ops if o["k"] in KIND.values())
        src = rng.choice(("vec", "iterx") if nst == 3 else ("vec", "iterx", "iter", "slice", "range"))
        full = []
        if src in HIDDEN_CONV:
            full.append({"k": "map", "t": list(range(V)), "h": 1})
        big = False
        for o in ops:
            if o["k"] in KIND.values():
                inv = {v: k for k, v in KIND.items()}
                full.append(rnd_table(rng, o["k"]))
            else:
                big = big or o["v"] > 64
                full.append({"k": o["k"], "v": o["v"]})
        p = {"src": src, "input": gen_input(rng, src, rng.choice([2, 5, 8])), "ops": full,
             "term": {"k": "none" if big else rng.choice(["count", "collect_vec", "first", "none"])}, "cs": -1, "ck": 0}
        jobs.append({"id": len(jobs) + 1, "mode": "free", "seed": seed, "sticky": 0.0, "sched": [], "logcalls": 1,
                     "spin": 0, "timeout_ms": 60000, "track": 1, "p": norm(p)})
    return jobs, {"builder_chains_in_state_graph": total, "chains_replayed": len(jobs), "depth": depth,
                  "tlc_s": round(time.time() - t0, 2)}


# ------------------------------------------------------------------ strict conformance (never an alarm)

def conformance(prop, tier, traces, work):
    conf, rej, samples = set(), [], []
    t0 = time.time()
    cfgp = os.path.join(SPEC, "TraceFull.cfg")
    running, pending = [], [t for t in traces if os.path.getsize(t) > 0]
    outs = []
    while pending or running:
        while pending and len(running) < 8:
            tf = pending.pop()
            pr, meta = tlc_start("TraceFull.tla", cfgp, work, env={"TRACE": tf})
            running.append((pr, meta, tf))
        pr, meta, tf = running.pop(0)
        try:
            out, _ = pr.communicate(timeout=1200)
        except subprocess.TimeoutExpired:
            pr.kill()
            out = ""
        shutil.rmtree(meta, ignore_errors=True)
        outs.append((tf, out))
    consumed = 0
    for tf, out in outs:
        for line in out.splitlines():
            line = line.strip()
            mm = re.match(r'^<<"CONFORMS", (\d+)>>$', line)
            if mm:
                conf.add((tf, int(mm.group(1))))
            mm = re.match(r'^<<"REJECT", (\d+), (\d+), "(\w+)">>$', line)
            if mm:
                rej.append({"run": int(mm.group(1)), "line": int(mm.group(2)), "event": mm.group(3), "tf": tf})
            if line.startswith('<<"FULL-CONSUMED"'):
                consumed += 1
    # (a run is accepted if some branch of the trace specification accepts it)
    accepted_runs = {(tf, rid) for tf, rid in conf}
    rej_u = {}
    for r in rej:
        key = (r["tf"], r["run"])
        if key not in accepted_runs and (key not in rej_u or r["line"] > rej_u[key]["line"]):
            rej_u[key] = {k: v for k, v in r.items() if k != "tf"}     # the branch that got furthest
    return {"strict_conformance": {"runs_accepted_by_ParRun": len(conf), "runs_rejected": len(rej_u),
                                   "first_rejections": list(rej_u.values())[:5], "files_consumed": consumed,
                                   "files": len(outs), "wall_s": round(time.time() - t0, 2),
                                   "note": "applies to scheduled (linearised) runs and to free-running programs that are sequential in every group (one thread), including chains with eager (materialising) sites, which are followed run by run; a rejection is spec-maintenance information, never a verdict"}}


# ------------------------------------------------------------------ showing that the binding binds

def _run_events(trace):
    """yields (run_id, [raw lines]) per program of a trace file"""
    cur, rid = [], None
    with open(trace) as f:
        for line in f:
            if '"e":"prog"' in line:
                if cur:
                    yield rid, cur
                cur, rid = [], json.loads(line)["run"]
            cur.append(line)
    if cur:
        yield rid, cur


def selftest(prop, traces, work):
    """Corrupts recorded traces and requires the TLA+ side to notice:
    (1) a terminal result altered -> the property's result clause (if it has one) must fire;
    (2) the position of a first-closure call altered in a scheduled run -> TraceFull must reject
        that run at that line;  (3) a worker-end event deleted -> TraceFull must reject;
    (4) a closure call deleted from a sequential run -> TraceFull must reject that run (the
        depth-first call order of sequential mode is bound, not only the multiset)."""
    res = {}
    result_clauses = {"C01": "collect", "C02": "find", "C03": "reduce", "C04": "count", "C06": "collect_into", "C07": "collect_x"}
    # (1)
    done1 = prop not in result_clauses
    done2 = done3 = False
    done4, tries4, seen, na2 = False, 0, 0, 0
    tries2 = 0       # (a tree whose runs no longer conform to ParRun has no accepted run to corrupt: give up after a few)
    for tf in traces:
        for rid, lines in _run_events(tf):
            prog = json.loads(lines[0])
            evs = [json.loads(l) for l in lines]
            te = [i for i, e in enumerate(evs) if e["e"] == "te"]
            if not done1 and te and evs[te[0]]["kind"] in ("col", "cnt", "opt") and prog["p"]["cs"] < 0:
                e = dict(evs[te[0]])
                if e["kind"] == "cnt":
                    e["n"] += 1
                elif e["rv"]:
                    e["rv"] = [e["rv"][0] + 1] + e["rv"][1:]
                else:
                    continue
                bad = lines[:te[0]] + [json.dumps(e) + "\n"] + lines[te[0] + 1:]
                pth = os.path.join(work, "selftest1.ndjson")
                open(pth, "w").write("".join(bad))
                v, st = monitor([pth], CLAUSES[prop], work, par=1)
                res["altered_result_flagged"] = len(v) > 0
                done1 = True
            seen += 1
            if seen > 400 and not done4:
                done4 = True       # no sequential run among the first programs of this tier: (4) does not apply
            scalls = [i for i, e in enumerate(evs) if e["e"] == "call" and e.get("a", 0) == 0 and e["s"] != 97]
            if (not done4 and tries4 < 6 and prog["mode"] == "free" and prog["p"]["cs"] < 0 and 3 <= len(scalls) <= 400
                    and not any(e["e"] in ("run_begin", "trunc") for e in evs)):
                tries4 += 1
                pth0 = os.path.join(work, "selftest4a.ndjson")
                open(pth0, "w").write("".join(lines))
                c0 = conformance(prop, "quick", [pth0], work)["strict_conformance"]
                if c0["runs_accepted_by_ParRun"] == 1:
                    j = scalls[len(scalls) // 2]
                    pth = os.path.join(work, "selftest4.ndjson")
                    open(pth, "w").write("".join(lines[:j] + lines[j + 1:]))
                    c1 = conformance(prop, "quick", [pth], work)["strict_conformance"]
                    res["deleted_sequential_call_rejected"] = c1["runs_rejected"] == 1 and c1["runs_accepted_by_ParRun"] == 0
                    done4 = True
                if tries4 >= 6:
                    done4 = True
            sched = prog["mode"] != "free" and prog["p"]["cs"] < 0
            calls = [i for i, e in enumerate(evs) if e["e"] == "call" and e.get("a", 0) >= 1 and e["s"] == 1]
            if (sched and not done2 and tries2 < 6 and na2 < 30 and len(calls) >= 2
                    and any(e["e"] == "end" and e["dstep"] == -1 for e in evs)):
                pth0 = os.path.join(work, "selftest2a.ndjson")
                open(pth0, "w").write("".join(lines))
                c0 = conformance(prop, "quick", [pth0], work)["strict_conformance"]
                if c0["runs_accepted_by_ParRun"] + c0["runs_rejected"] == 0:
                    na2 += 1          # the strict pass does not follow this program (endless source, digest-sized, ...)
                else:
                    tries2 += 1       # followed and rejected: a tree whose runs no longer conform
                if c0["runs_accepted_by_ParRun"] == 1:
                    i = calls[len(calls) // 2]
                    e = dict(evs[i]); e["k"] = e["k"] + 1
                    bad = lines[:i] + [json.dumps(e) + "\n"] + lines[i + 1:]
                    pth = os.path.join(work, "selftest2.ndjson")
                    open(pth, "w").write("".join(bad))
                    c1 = conformance(prop, "quick", [pth], work)["strict_conformance"]
                    res["altered_position_rejected"] = c1["runs_rejected"] == 1 and c1["runs_accepted_by_ParRun"] == 0
                    res["altered_position_rejected_at_line"] = [r["line"] for r in c1["first_rejections"]] == [e["i"]]
                    done2 = True
                    wends = [j for j, x in enumerate(evs) if x["e"] == "wend"]
                    if wends and not done3:
                        j = wends[0]
                        bad = lines[:j] + lines[j + 1:]
                        pth = os.path.join(work, "selftest3.ndjson")
                        open(pth, "w").write("".join(bad))
                        c2 = conformance(prop, "quick", [pth], work)["strict_conformance"]
                        res["deleted_worker_end_rejected"] = c2["runs_rejected"] == 1
                        done3 = True
            if done1 and done4 and ((done2 and done3) or tries2 >= 6 or na2 >= 30):
                if not done2:
                    res["position_and_event_corruption"] = ("skipped: none of the first scheduled runs conforms to ParRun on this tree" if tries2 >= 6
                                                            else "skipped: the strict pass follows none of the first 30 scheduled programs of this tier")
                return res
    return res
