"""Which bounded instances of the specification TLC checks per property, which TLC-generated
behaviours are replayed in the library, and the (non-alarming) strict conformance pass."""
from vlib import *


def model_check_for(prop, tier, work):
    return []


def generated_jobs(prop, tier, seed, work):
    return [], {"generated_schedules": 0}


def conformance(prop, tier, traces, work):
    return {"conformance": "not run"}
