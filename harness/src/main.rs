//! orxh - conformance harness for orx-parallel.
//!
//! `orxh run --in jobs.ndjson --out trace.ndjson` executes every job (a program plus an
//! execution mode) in the real library and writes one ndjson event trace.

mod exec;
mod item;
mod prog;
mod sched;
mod shapes;

use exec::{Ctx, Out};
use item::E;
use prog::Prog;
use serde::Deserialize;
use std::io::Write;
use std::sync::{Arc, Condvar, Mutex};
use std::time::Duration;

#[derive(Deserialize, Clone, Debug)]
struct Job {
    id: u64,
    /// free | rand | replay
    mode: String,
    #[serde(default)]
    seed: u64,
    #[serde(default)]
    sticky: f64,
    #[serde(default)]
    sched: Vec<u32>,
    #[serde(default = "one")]
    logcalls: u8,
    #[serde(default)]
    spin: u32,
    /// microseconds every next() of a by-value iterator source sleeps (free mode: widens turnstile races)
    #[serde(default)]
    sleep_us: u32,
    /// the first next() of a by-value iterator source waits until this many workers have begun
    #[serde(default)]
    hold_workers: u32,
    /// scheduled modes: the worker that calls next() for this source position parks inside next()
    /// (holding the turnstile) and is scheduled last; -1 = never
    #[serde(default = "neg1i")]
    hold_pos: i64,
    #[serde(default = "dflt_timeout")]
    timeout_ms: u64,
    #[serde(default = "one")]
    track: u8,
    p: Prog,
}

fn one() -> u8 {
    1
}
fn neg1i() -> i64 {
    -1
}
fn dflt_timeout() -> u64 {
    60_000
}

fn flush(out: &mut std::fs::File) {
    let b = sched::take_buf();
    out.write_all(b.as_bytes()).expect("write trace");
    out.flush().expect("flush");
}

/// Collections whose iteration order is only known once the instance exists (hash based, heap):
/// they are built before the `prog` event is written, so that the event can carry the elements in
/// the order the instance will yield them.
enum Prebuilt {
    None,
    HashSet(std::collections::HashSet<E>),
    Heap(std::collections::BinaryHeap<E>),
    List(std::collections::LinkedList<E>),
}

fn prebuild(p: &Prog) -> (Prebuilt, Option<Vec<(u32, i32)>>) {
    match p.src.as_str() {
        "hashset" | "hashsetref" => {
            let c: std::collections::HashSet<E> = exec::items_of(p).into_iter().collect();
            let order = c.iter().map(|e| (e.key, e.val)).collect();
            (Prebuilt::HashSet(c), Some(order))
        }
        "heap" | "heapref" => {
            let c: std::collections::BinaryHeap<E> = exec::items_of(p).into_iter().collect();
            let order = c.iter().map(|e| (e.key, e.val)).collect();
            (Prebuilt::Heap(c), Some(order))
        }
        "listref" => {
            let c: std::collections::LinkedList<E> = exec::items_of(p).into_iter().collect();
            let order = c.iter().map(|e| (e.key, e.val)).collect();
            (Prebuilt::List(c), Some(order))
        }
        _ => (Prebuilt::None, None),
    }
}

fn run_prog(ctx: &Ctx, spin: u32, sleep_us: u32, hold: u32, hold_pos: i64, logcalls: bool, pre: Prebuilt) -> Out {
    let p = &ctx.prog;
    let shape = p.shape();
    match pre {
        Prebuilt::HashSet(c) => {
            return if p.src == "hashset" { shapes::run_hashset(&shape, ctx, c) } else { shapes::run_hashsetref(&shape, ctx, &c) }
        }
        Prebuilt::Heap(c) => {
            return if p.src == "heap" { shapes::run_heap(&shape, ctx, c) } else { shapes::run_heapref(&shape, ctx, &c) }
        }
        Prebuilt::List(c) => return shapes::run_listref(&shape, ctx, &c),
        Prebuilt::None => {}
    }
    match p.src.as_str() {
        "vec" => shapes::run_vec(&shape, ctx, exec::items_of(p)),
        "iter" => shapes::run_iter(&shape, ctx, exec::SrcIter::new(exec::items_of(p), true, spin, logcalls, sleep_us, hold, hold_pos)),
        "iterx" => shapes::run_iter(&shape, ctx, exec::SrcIter::new(exec::items_of(p), false, spin, logcalls, sleep_us, hold, hold_pos)),
        "slice" => {
            let items = exec::items_of(p);
            shapes::run_slice(&shape, ctx, &items[..])
        }
        "range" => shapes::run_range(&shape, ctx, p.len()),
        "inf" => shapes::run_inf(&shape, ctx, exec::Unbounded::new(p.input.clone())),
        "deque" => shapes::run_deque(&shape, ctx, exec::items_of(p).into_iter().collect()),
        "list" => shapes::run_list(&shape, ctx, exec::items_of(p).into_iter().collect()),
        "btree" => shapes::run_btree(&shape, ctx, exec::items_of(p).into_iter().collect()),
        "vecadv" => {
            use orx_concurrent_iter::{ConcurrentIterX, IntoConcurrentIter};
            let it = exec::items_of(p).into_con_iter();
            for _ in 0..p.adv {
                drop(it.next());
            }
            shapes::run_vecadv(&shape, ctx, it)
        }
        "dequeref" => {
            // a ring buffer whose contents wrap around the end of its allocation
            let items = exec::items_of(p);
            let n = items.len();
            let mut d: std::collections::VecDeque<E> = std::collections::VecDeque::with_capacity(n.max(1));
            let cap = d.capacity();
            let tail = n / 2;
            let lead = cap - (n - tail);
            for _ in 0..lead {
                d.push_back(E::new(999_998, 0));
            }
            let mut it = items.into_iter();
            for _ in 0..(n - tail) {
                d.push_back(it.next().expect("item"));
            }
            for _ in 0..lead {
                drop(d.pop_front());
            }
            for x in it {
                d.push_back(x);
            }
            shapes::run_dequeref(&shape, ctx, &d)
        }
        "btreeref" => {
            let b: std::collections::BTreeSet<E> = exec::items_of(p).into_iter().collect();
            shapes::run_btreeref(&shape, ctx, &b)
        }
        other => panic!("unknown source {}", other),
    }
}

fn ints<T: std::fmt::Display>(v: impl Iterator<Item = T>) -> String {
    let mut s = String::from("[");
    for (i, x) in v.enumerate() {
        if i > 0 {
            s.push(',');
        }
        s.push_str(&x.to_string());
    }
    s.push(']');
    s
}

const HM: u64 = 46_337;

fn log_te(out: &Result<Out, ()>, big: bool) {
    // digests of a collected sequence (compared by the monitor for big programs)
    let (mut hs, mut hu) = (0u64, 0u64);
    if let Ok(Out::Col(v)) = out {
        for e in v.iter() {
            let x = (e.key as u64 * 7 + e.val as u64 + 1) % HM;
            hs = (hs * 31 + x) % HM;
            hu = (hu + (x * x) % HM) % HM;
        }
    }
    let (kind, rk, rv, n, found, idx, b) = match out {
        Err(()) => ("panic", "[]".to_string(), "[]".to_string(), 0usize, 0, -1i64, 0),
        Ok(Out::Col(v)) if big => ("col", ints(v.iter().take(8).map(|e| e.key)), ints(v.iter().take(8).map(|e| e.val)), v.len(), 0, -1, 0),
        Ok(Out::Col(v)) => ("col", ints(v.iter().map(|e| e.key)), ints(v.iter().map(|e| e.val)), v.len(), 0, -1, 0),
        Ok(Out::Cnt(n)) => ("cnt", "[]".into(), "[]".into(), *n, 0, -1, 0),
        Ok(Out::Opt(None)) => ("opt", "[]".into(), "[]".into(), 0, 0, -1, 0),
        Ok(Out::Opt(Some(e))) => ("opt", format!("[{}]", e.key), format!("[{}]", e.val), 0, 1, -1, 0),
        Ok(Out::OptIdx(None)) => ("optidx", "[]".into(), "[]".into(), 0, 0, -1, 0),
        Ok(Out::OptIdx(Some((i, e)))) => ("optidx", format!("[{}]", e.key), format!("[{}]", e.val), 0, 1, *i as i64, 0),
        Ok(Out::Bool(x)) => ("bool", "[]".into(), "[]".into(), 0, 0, -1, *x as u8),
        Ok(Out::Unit) => ("unit", "[]".into(), "[]".into(), 0, 0, -1, 0),
    };
    sched::log(&format!(
        "\"e\":\"te\",\"t\":{},\"hs\":{},\"hu\":{},\"kind\":\"{}\",\"rk\":{},\"rv\":{},\"n\":{},\"found\":{},\"idx\":{},\"b\":{}",
        sched::tid(),
        hs,
        hu,
        kind,
        rk,
        rv,
        (n as u64).min(2_000_000_000),
        found,
        idx,
        b
    ));
}

fn cmd_run(inp: &str, outp: &str) {
    sched::init();
    orx_parallel::verif::set_hooks(Some(Arc::new(sched::H)));
    if std::env::var("ORXH_PANICMSG").is_ok() {
        std::panic::set_hook(Box::new(|i| eprintln!("panic: {}", i)));
    } else {
        std::panic::set_hook(Box::new(|_| {}));
    }
    let text = std::fs::read_to_string(inp).expect("read jobs");
    let mut out = std::fs::File::create(outp).expect("create trace");
    let mut n = 0u64;
    for line in text.lines() {
        if line.trim().is_empty() {
            continue;
        }
        let job: Job = serde_json::from_str(line).unwrap_or_else(|e| panic_exit(&format!("bad job: {} in {}", e, line)));
        n += 1;
        item::TRACK.store(job.track != 0, std::sync::atomic::Ordering::SeqCst);
        item::tok_reset();
        let sched_on = job.mode != "free";
        sched::begin_program(sched_on, job.sched.clone(), job.seed, job.sticky, job.logcalls != 0, job.mode == "hold");
        let (pre, order) = prebuild(&job.p);
        let mut pjson = serde_json::to_value(&job.p).expect("ser");
        if let Some(o) = &order {
            let elems: Vec<serde_json::Value> = o.iter().map(|(k, v)| serde_json::json!({"k": k, "v": v})).collect();
            pjson["elems"] = serde_json::Value::Array(elems);
        }
        sched::log(&format!(
            "\"e\":\"prog\",\"run\":{},\"mode\":\"{}\",\"seed\":{},\"cthr\":{},\"logcalls\":{},\"track\":{},\"cores\":{},\"p\":{}",
            job.id,
            job.mode,
            job.seed % 2_000_000_000,
            sched::tid(),
            job.logcalls,
            job.track,
            std::thread::available_parallelism().map(|x| x.get()).unwrap_or(1),
            serde_json::to_string(&pjson).expect("ser")
        ));
        flush(&mut out);

        // watchdog
        let done = Arc::new((Mutex::new(false), Condvar::new()));
        let d2 = done.clone();
        let outp2 = outp.to_string();
        let timeout = job.timeout_ms;
        let wd = std::thread::spawn(move || {
            let (m, cv) = &*d2;
            let g = m.lock().unwrap_or_else(|e| e.into_inner());
            let (g, res) = cv
                .wait_timeout_while(g, Duration::from_millis(timeout), |d| !*d)
                .unwrap_or_else(|e| e.into_inner());
            if res.timed_out() && !*g {
                sched::log("\"e\":\"hang\"");
                let b = sched::take_buf();
                if let Ok(mut f) = std::fs::OpenOptions::new().append(true).open(&outp2) {
                    let _ = f.write_all(b.as_bytes());
                }
                std::process::exit(3);
            }
        });

        let ctx = Ctx::new(&job.p);
        let spin = job.spin;
        let res = std::panic::catch_unwind(std::panic::AssertUnwindSafe(|| run_prog(&ctx, spin, job.sleep_us, job.hold_workers, job.hold_pos, job.logcalls != 0, pre)));
        let res = res.map_err(|_| ());
        log_te(&res, job.p.is_big());
        drop(res);
        drop(ctx);
        {
            let (m, cv) = &*done;
            *m.lock().unwrap_or_else(|e| e.into_inner()) = true;
            cv.notify_all();
        }
        let _ = wd.join();
        let ts = item::tok_stats();
        let (grants, div, runs, maxlive) = sched::end_program();
        sched::log(&format!(
            "\"e\":\"tok\",\"created\":{},\"dropped\":{},\"live\":{},\"double\":{},\"bad\":{}",
            ts.created.min(2_000_000_000),
            ts.dropped.min(2_000_000_000),
            ts.live(),
            ts.double,
            ts.bad
        ));
        let (dstep, dwant) = match &div {
            Some((s, w, _)) => (*s as i64, *w as i64),
            None => (-1, -1),
        };
        sched::log(&format!(
            "\"e\":\"end\",\"run\":{},\"grants\":{},\"dstep\":{},\"dwant\":{},\"runs\":{},\"maxlive\":{}",
            job.id,
            if grants.len() <= 4000 { ints(grants.iter()) } else { "[]".to_string() },
            dstep,
            dwant,
            runs,
            maxlive
        ));
        flush(&mut out);
    }
    eprintln!("orxh: {} jobs executed", n);
}

fn panic_exit(msg: &str) -> ! {
    eprintln!("orxh: {}", msg);
    std::process::exit(2);
}

fn main() {
    let args: Vec<String> = std::env::args().collect();
    let get = |name: &str| -> Option<String> {
        args.iter().position(|a| a == name).and_then(|i| args.get(i + 1).cloned())
    };
    match args.get(1).map(|s| s.as_str()) {
        Some("run") => {
            let inp = get("--in").unwrap_or_else(|| panic_exit("--in missing"));
            let outp = get("--out").unwrap_or_else(|| panic_exit("--out missing"));
            cmd_run(&inp, &outp);
        }
        _ => panic_exit("usage: orxh run --in jobs.ndjson --out trace.ndjson"),
    }
    let _ = E::new(0, 0);
}
