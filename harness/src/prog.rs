//! Programs as data: what the generator produces, what TLC-generated behaviours carry and
//! what the `prog` event of every trace contains.

use serde::{Deserialize, Serialize};

pub const V: i32 = 6; // value domain 0..V-1
pub const FAN: u32 = 4; // key of a flat_map child = key * FAN + j, j < FAN-1

#[derive(Serialize, Deserialize, Clone, Debug, Default)]
pub struct Op {
    /// map | filter | fmap | flat | nt | cs | csmin
    pub k: String,
    /// table over values: map -> value, filter -> 0/1, fmap -> value or -1
    #[serde(default)]
    pub t: Vec<i32>,
    /// flat_map table: value -> produced values
    #[serde(default)]
    pub tt: Vec<Vec<i32>>,
    /// parameter value for nt / cs / csmin (0 = Auto)
    #[serde(default)]
    pub v: u64,
    /// 1 for the hidden conversion stage of slice / range sources
    #[serde(default)]
    pub h: u8,
    /// the parameter value is v << sh (sh = 64: usize::MAX); lets jobs name values beyond 2^31
    #[serde(default)]
    pub sh: u32,
}

impl Op {
    pub fn value(&self) -> usize {
        if self.sh >= 64 {
            usize::MAX
        } else {
            (self.v as usize).checked_shl(self.sh).unwrap_or(usize::MAX).max(self.v as usize)
        }
    }
}

#[derive(Serialize, Deserialize, Clone, Debug, Default)]
pub struct Term {
    /// collect_vec | collect | collect_into | collect_x | count | for_each | reduce | fold | sum
    /// | min | max | min_by | max_by | min_by_key | max_by_key | find | first | any | all
    /// | find_idx | first_idx
    pub k: String,
    /// predicate / key table over values
    #[serde(default)]
    pub t: Vec<i32>,
    /// reduce operator: add | xor | min | max | sub | poly
    #[serde(default)]
    pub op: String,
    /// collect_into target: vec | split | splitlin | fixed
    #[serde(default)]
    pub tk: String,
    /// values already in the target
    #[serde(default)]
    pub pre: Vec<i32>,
    /// spare capacity requested for the target beyond the prefix
    #[serde(default)]
    pub cap: u64,
}

#[derive(Serialize, Deserialize, Clone, Debug, Default)]
pub struct Prog {
    /// vec | vecadv | slice | range | iter | iterx | inf | deque | list | btree | dequeref | btreeref
    pub src: String,
    pub input: Vec<i32>,
    pub ops: Vec<Op>,
    pub term: Term,
    /// crash point: panic at entry of stage `cs` (99 = terminal closure, 98 = reduce operator)
    /// on the element with key `ck`; cs = -1 means none
    /// source length; 0 = len(input). If larger, position i carries input[i % len(input)] ("big" programs)
    #[serde(default)]
    pub n: u64,
    /// for src = vecadv: how many elements are pulled from the concurrent iterator before it is used
    #[serde(default)]
    pub adv: u32,
    #[serde(default = "neg1")]
    pub cs: i32,
    #[serde(default)]
    pub ck: u32,
}

fn neg1() -> i32 {
    -1
}

#[derive(Clone, Copy, PartialEq, Eq, Debug)]
pub enum Ty {
    Empty,
    Map,
    Fil,
    MapFil,
    FilterMap,
    FilterMapFil,
    FlatMap,
    FlatMapFil,
}

/// Mirror of the transformation table of the library; used ONLY to decide which closure is
/// the scheduler's yield point of each fused run (never for a verdict).
pub fn trans(ty: Ty, k: &str) -> (Ty, bool) {
    use Ty::*;
    match (ty, k) {
        (Empty, "map") => (Map, false),
        (Empty, "filter") => (Fil, false),
        (Empty, "flat") => (FlatMap, false),
        (Empty, "fmap") => (FilterMap, false),
        (Map, "map") => (Map, false),
        (Map, "filter") => (MapFil, false),
        (Map, "flat") => (FlatMap, false),
        (Map, "fmap") => (FilterMap, false),
        (Fil, "map") => (FilterMap, false),
        (Fil, "filter") => (Fil, false),
        (Fil, "flat") => (FlatMap, true),
        (Fil, "fmap") => (FilterMap, false),
        (MapFil, "map") => (FilterMap, false),
        (MapFil, "filter") => (MapFil, false),
        (MapFil, "flat") => (FlatMap, true),
        (MapFil, "fmap") => (FilterMap, false),
        (FilterMap, "map") => (FilterMap, false),
        (FilterMap, "filter") => (FilterMapFil, false),
        (FilterMap, "flat") => (FlatMap, true),
        (FilterMap, "fmap") => (FilterMap, false),
        (FilterMapFil, "map") => (FilterMap, false),
        (FilterMapFil, "filter") => (FilterMapFil, false),
        (FilterMapFil, "flat") => (FlatMap, true),
        (FilterMapFil, "fmap") => (FilterMap, false),
        (FlatMap, "map") => (FlatMap, false),
        (FlatMap, "filter") => (FlatMapFil, false),
        (FlatMap, "flat") => (FlatMap, false),
        (FlatMap, "fmap") => (FilterMap, true),
        (FlatMapFil, "map") => (Map, true),
        (FlatMapFil, "filter") => (FlatMapFil, false),
        (FlatMapFil, "flat") => (FlatMap, true),
        (FlatMapFil, "fmap") => (FilterMap, true),
        _ => (ty, false),
    }
}

impl Prog {
    pub fn len(&self) -> usize {
        if self.n as usize > self.input.len() {
            self.n as usize
        } else {
            self.input.len()
        }
    }

    pub fn is_big(&self) -> bool {
        self.n as usize > self.input.len() || self.input.len() > 2000
    }

    /// Transformation ops (stages) in order, 1-based stage number = index + 1.
    pub fn stages(&self) -> Vec<&Op> {
        self.ops.iter().filter(|o| is_stage(&o.k)).collect()
    }

    /// For every stage: is it the first closure evaluated per source element of its run?
    pub fn yield_flags(&self) -> Vec<bool> {
        let mut ty = Ty::Empty;
        let mut flags = vec![];
        let mut first = true;
        for o in self.stages() {
            let (t2, eager) = trans(ty, &o.k);
            flags.push(first || eager);
            first = false;
            ty = t2;
        }
        flags
    }

    /// Shape string of the visible stages, e.g. "mfl" (m map, f filter, l flat_map, o filter_map).
    pub fn shape(&self) -> String {
        self.ops
            .iter()
            .filter(|o| is_stage(&o.k) && o.h == 0)
            .map(|o| match o.k.as_str() {
                "map" => 'm',
                "filter" => 'f',
                "flat" => 'l',
                _ => 'o',
            })
            .collect()
    }
}

pub fn is_stage(k: &str) -> bool {
    matches!(k, "map" | "filter" | "flat" | "fmap")
}
