//! Executes one program in the real library: builds the source, applies the chain through the
//! generated shape code, runs the terminal, and records everything observable.

use crate::item::E;
use crate::prog::{is_stage, Op, Prog, FAN};
use crate::sched;
use orx_fixed_vec::FixedVec;
use orx_parallel::*;
use orx_split_vec::{PinnedVec, SplitVec};
use std::sync::atomic::{AtomicBool, AtomicU64, Ordering};
use std::sync::Arc;

pub enum Out {
    Col(Vec<E>),
    Cnt(usize),
    Opt(Option<E>),
    OptIdx(Option<(usize, E)>),
    Bool(bool),
    Unit,
}

pub struct StageInfo {
    pub stage: u32,
    pub t: Vec<i32>,
    pub tt: Vec<Vec<i32>>,
    pub is_yield: bool,
    pub crash_key: Option<u32>,
}

impl StageInfo {
    #[inline]
    fn enter(&self, key: u32, val: i32) {
        sched::closure_enter(self.stage, key, val, self.is_yield);
        if self.crash_key == Some(key) {
            panic!("injected panic at stage {} key {}", self.stage, key);
        }
    }
}

pub struct Ctx {
    pub prog: Prog,
    pub stages: Vec<Arc<StageInfo>>, // index = stage number - 1 (hidden stage included)
    pub base: u32,                   // number of hidden stages (0 or 1)
    pub slots: Vec<Vec<Op>>,         // param ops before visible stage j (j = 0..=len)
    pub term: Arc<StageInfo>,        // terminal closure (stage 99)
    pub key: Arc<StageInfo>,         // key / compare closure (stage 97)
    pub red_calls: Arc<AtomicU64>,
    pub red_crash: Option<u64>,
}

impl Ctx {
    pub fn new(prog: &Prog) -> Ctx {
        let yields = prog.yield_flags();
        let mut stages = vec![];
        let mut n = 0u32;
        let mut base = 0;
        for o in prog.ops.iter().filter(|o| is_stage(&o.k)) {
            n += 1;
            if o.h == 1 {
                base += 1;
            }
            stages.push(Arc::new(StageInfo {
                stage: n,
                t: o.t.clone(),
                tt: o.tt.clone(),
                is_yield: yields[(n - 1) as usize],
                crash_key: if prog.cs == n as i32 { Some(prog.ck) } else { None },
            }));
        }
        let mut slots: Vec<Vec<Op>> = vec![vec![]];
        for o in prog.ops.iter() {
            if is_stage(&o.k) {
                if o.h == 0 {
                    slots.push(vec![]);
                }
            } else {
                slots.last_mut().expect("slot").push(o.clone());
            }
        }
        let term = Arc::new(StageInfo {
            stage: 99,
            t: prog.term.t.clone(),
            tt: vec![],
            is_yield: stages.is_empty(),
            crash_key: if prog.cs == 99 { Some(prog.ck) } else { None },
        });
        let key = Arc::new(StageInfo {
            stage: 97,
            t: prog.term.t.clone(),
            tt: vec![],
            is_yield: false,
            crash_key: None,
        });
        Ctx {
            prog: prog.clone(),
            stages,
            base,
            slots,
            term,
            key,
            red_calls: Arc::new(AtomicU64::new(0)),
            red_crash: if prog.cs == 98 { Some(prog.ck as u64) } else { None },
        }
    }

    fn st(&self, visible: u32) -> Arc<StageInfo> {
        self.stages[(self.base + visible - 1) as usize].clone()
    }

    pub fn mapf(&self, visible: u32) -> impl Fn(E) -> E + Clone + Send + Sync + 'static {
        let st = self.st(visible);
        move |x: E| {
            st.enter(x.key, x.val);
            E::new(x.key, st.t[x.val as usize])
        }
    }

    pub fn filf(&self, visible: u32) -> impl Fn(&E) -> bool + Clone + Send + Sync + 'static {
        let st = self.st(visible);
        move |x: &E| {
            st.enter(x.key, x.val);
            st.t[x.val as usize] != 0
        }
    }

    pub fn fmapf(&self, visible: u32) -> impl Fn(E) -> Option<E> + Clone + Send + Sync + 'static {
        let st = self.st(visible);
        move |x: E| {
            st.enter(x.key, x.val);
            let r = st.t[x.val as usize];
            if r < 0 {
                None
            } else {
                Some(E::new(x.key, r))
            }
        }
    }

    pub fn flatf(&self, visible: u32) -> impl Fn(E) -> Vec<E> + Clone + Send + Sync + 'static {
        let st = self.st(visible);
        move |x: E| {
            st.enter(x.key, x.val);
            st.tt[x.val as usize]
                .iter()
                .enumerate()
                .map(|(j, v)| E::new(x.key * FAN + j as u32, *v))
                .collect()
        }
    }

    /// hidden conversion stage of slice sources
    pub fn convref(&self) -> impl Fn(&E) -> E + Clone + Send + Sync + 'static {
        let st = self.stages[0].clone();
        move |x: &E| {
            st.enter(x.key, x.val);
            E::new(x.key, x.val)
        }
    }

    /// hidden conversion stage of range sources
    pub fn convidx(&self) -> impl Fn(usize) -> E + Clone + Send + Sync + 'static {
        let st = self.stages[0].clone();
        let input = self.prog.input.clone();
        move |i: usize| {
            let v = input[i % input.len().max(1)];
            st.enter(i as u32, v);
            E::new(i as u32, v)
        }
    }

    pub fn pred(&self) -> impl Fn(&E) -> bool + Clone + Send + Sync + 'static {
        let st = self.term.clone();
        move |x: &E| {
            st.enter(x.key, x.val);
            st.t[x.val as usize] != 0
        }
    }

    pub fn eachf(&self) -> impl Fn(E) + Clone + Send + Sync + 'static {
        let st = self.term.clone();
        move |x: E| {
            st.enter(x.key, x.val);
        }
    }

    pub fn keyf(&self) -> impl Fn(&E) -> i32 + Clone + Send + Sync + 'static {
        let st = self.key.clone();
        move |x: &E| {
            st.enter(x.key, x.val);
            st.t[x.val as usize]
        }
    }

    pub fn cmpf(&self) -> impl Fn(&E, &E) -> std::cmp::Ordering + Clone + Send + Sync + 'static {
        let st = self.key.clone();
        move |x: &E, y: &E| {
            st.enter(x.key, x.val);
            st.t[x.val as usize].cmp(&st.t[y.val as usize])
        }
    }

    pub fn redf(&self) -> impl Fn(E, E) -> E + Clone + Send + Sync + 'static {
        let op = self.prog.term.op.clone();
        let calls = self.red_calls.clone();
        let crash = self.red_crash;
        let logred = !self.prog.is_big();
        move |a: E, b: E| {
            let n = calls.fetch_add(1, Ordering::Relaxed) + 1;
            if logred {
            sched::log_capped(&format!(
                "\"e\":\"red\",\"a\":{},\"t\":{},\"x\":{},\"y\":{},\"xk\":{},\"yk\":{}",
                sched::actor(),
                sched::tid(),
                a.val,
                b.val,
                a.key,
                b.key
            ));
            }
            if crash == Some(n) {
                panic!("injected panic in reduce call {}", n);
            }
            let v = match op.as_str() {
                "add" => a.val.wrapping_add(b.val),
                "xor" => a.val ^ b.val,
                "min" => a.val.min(b.val),
                "max" => a.val.max(b.val),
                "sub" => a.val.wrapping_sub(b.val),
                "poly" => (a.val.wrapping_mul(3).wrapping_add(b.val)).rem_euclid(1009),
                _ => a.val,
            };
            E::new(a.key.min(b.key), v)
        }
    }
}

pub fn logp<P: Par>(p: &P) {
    let pr = p.params();
    let (nt, ntv) = match pr.num_threads {
        NumThreads::Auto => ("auto", 0),
        NumThreads::Max(n) => ("max", n.get()),
    };
    let (ck, csv) = match pr.chunk_size {
        ChunkSize::Auto => ("auto", 0),
        ChunkSize::Exact(n) => ("exact", n.get()),
        ChunkSize::Min(n) => ("min", n.get()),
    };
    sched::log(&format!(
        "\"e\":\"par\",\"nt\":\"{}\",\"ntv\":{},\"ck\":\"{}\",\"csv\":{},\"seq\":{}",
        nt,
        (ntv as u64).min(2_000_000_000),
        ck,
        (csv as u64).min(2_000_000_000),
        pr.is_sequential() as u8
    ));
}

/// Applies the parameter ops of slot `slot`, logging `params()` after each.
pub fn setp<P: Par>(mut p: P, slot: usize, ctx: &Ctx) -> P {
    if slot == 0 {
        sched::log("\"e\":\"op\",\"k\":\"src\"");
        logp(&p);
    }
    for o in ctx.slots[slot].iter() {
        sched::log(&format!("\"e\":\"op\",\"k\":\"{}\",\"v\":{}", o.k, (o.value() as u64).min(2_000_000_000)));
        p = match o.k.as_str() {
            "nt" => p.num_threads(o.value()),
            "cs" => p.chunk_size(o.value()),
            "csmin" => match std::num::NonZeroUsize::new(o.value()) {
                Some(n) => p.chunk_size(ChunkSize::Min(n)),
                None => p.chunk_size(ChunkSize::Auto),
            },
            _ => p,
        };
        logp(&p);
    }
    p
}

pub fn stage_applied<P: Par>(p: &P, k: &str) {
    sched::log(&format!("\"e\":\"op\",\"k\":\"{}\"", k));
    logp(p);
}

fn tb() {
    sched::log("\"e\":\"built\"");
    sched::log(&format!("\"e\":\"tb\",\"t\":{}", sched::tid()));
}

fn mk_target_vec(ctx: &Ctx) -> Vec<E> {
    let t = &ctx.prog.term;
    let mut v = Vec::with_capacity(t.pre.len() + t.cap as usize);
    for (i, x) in t.pre.iter().enumerate() {
        v.push(E::new(1_000_000 + i as u32, *x));
    }
    v
}

/// Terminals every shape is compiled with.
pub fn term_core<P: Par<Item = E>>(p: P, ctx: &Ctx) -> Out {
    let k = ctx.prog.term.k.clone();
    tb();
    match k.as_str() {
        "collect_vec" => Out::Col(p.collect_vec()),
        "collect" => Out::Col(p.collect().into_iter().collect()),
        "collect_into" => match ctx.prog.term.tk.as_str() {
            "split" => {
                let mut s = SplitVec::new();
                for x in mk_target_vec(ctx) {
                    s.push(x);
                }
                Out::Col(p.collect_into(s).into_iter().collect())
            }
            "fixed" => {
                let v = mk_target_vec(ctx);
                let f: FixedVec<E> = v.into();
                Out::Col(p.collect_into(f).into_iter().collect())
            }
            _ => Out::Col(p.collect_into(mk_target_vec(ctx))),
        },
        "collect_x" => Out::Col(p.collect_x().into_iter().collect()),
        "count" => Out::Cnt(p.count()),
        "none" => {
            drop(p);
            Out::Unit
        }
        "for_each" => {
            p.for_each(ctx.eachf());
            Out::Unit
        }
        "reduce" => Out::Opt(p.reduce(ctx.redf())),
        "find" => Out::Opt(p.find(ctx.pred())),
        "first" => Out::Opt(p.first()),
        "any" => Out::Bool(p.any(ctx.pred())),
        "all" => Out::Bool(p.all(ctx.pred())),
        other => panic!("terminal {} not compiled for this shape", other),
    }
}

/// Early-exit terminals only (used for the endless source).
pub fn term_early<P: Par<Item = E>>(p: P, ctx: &Ctx) -> Out {
    let k = ctx.prog.term.k.clone();
    tb();
    match k.as_str() {
        "find" => Out::Opt(p.find(ctx.pred())),
        "first" => Out::Opt(p.first()),
        "any" => Out::Bool(p.any(ctx.pred())),
        "all" => Out::Bool(p.all(ctx.pred())),
        other => panic!("terminal {} not compiled for this source", other),
    }
}

/// The full terminal set (compiled only for short shapes).
pub fn term_full<P: Par<Item = E>>(p: P, ctx: &Ctx) -> Out {
    let k = ctx.prog.term.k.clone();
    match k.as_str() {
        "fold" => {
            tb();
            Out::Opt(Some(p.fold(|| E::new(999_999, 0), ctx.redf())))
        }
        "sum" => {
            tb();
            Out::Opt(Some(p.sum()))
        }
        "min" => {
            tb();
            Out::Opt(p.min())
        }
        "max" => {
            tb();
            Out::Opt(p.max())
        }
        "min_by" => {
            tb();
            Out::Opt(p.min_by(ctx.cmpf()))
        }
        "max_by" => {
            tb();
            Out::Opt(p.max_by(ctx.cmpf()))
        }
        "min_by_key" => {
            tb();
            Out::Opt(p.min_by_key(ctx.keyf()))
        }
        "max_by_key" => {
            tb();
            Out::Opt(p.max_by_key(ctx.keyf()))
        }
        "collect_into" if ctx.prog.term.tk == "splitlin" => {
            tb();
            let mut s = SplitVec::with_linear_growth(4);
            for x in mk_target_vec(ctx) {
                s.push(x);
            }
            Out::Col(p.collect_into(s).into_iter().collect())
        }
        _ => term_core(p, ctx),
    }
}

/// For concrete types that have the inherent `*_with_index` methods.
#[macro_export]
macro_rules! term_idx {
    ($p:expr, $ctx:expr, $inner:ident) => {{
        let p = $p;
        match $ctx.prog.term.k.as_str() {
            "find_idx" => {
                $crate::exec::tb_pub();
                $crate::exec::Out::OptIdx(p.find_with_index($ctx.pred()))
            }
            "first_idx" => {
                $crate::exec::tb_pub();
                $crate::exec::Out::OptIdx(p.first_with_index())
            }
            _ => $crate::exec::$inner(p, $ctx),
        }
    }};
}

pub fn tb_pub() {
    tb();
}

// ------------------------------------------------------------------ sources

/// By-value iterator source that records every `next` call and detects re-entrancy.
pub struct SrcIter {
    items: std::vec::IntoIter<E>,
    known: bool,
    pos: usize,
    inside: Arc<AtomicBool>,
    spin: u32,
    log: bool,
    sleep_us: u32,
    hold_workers: u32,
    hold_pos: i64,
}

impl SrcIter {
    pub fn new(items: Vec<E>, known: bool, spin: u32, log: bool, sleep_us: u32, hold_workers: u32, hold_pos: i64) -> Self {
        SrcIter {
            items: items.into_iter(),
            known,
            pos: 0,
            inside: Arc::new(AtomicBool::new(false)),
            spin,
            log,
            sleep_us,
            hold_workers,
            hold_pos,
        }
    }
}

impl Iterator for SrcIter {
    type Item = E;
    fn next(&mut self) -> Option<E> {
        if self.inside.swap(true, Ordering::SeqCst) {
            sched::log(&format!("\"e\":\"reent\",\"a\":{},\"t\":{}", sched::actor(), sched::tid()));
        }
        for _ in 0..self.spin {
            std::hint::spin_loop();
        }
        if self.hold_pos >= 0 && self.pos as i64 == self.hold_pos {
            sched::source_hold_point();
        }
        if self.hold_workers > 0 && self.pos == 0 {
            // hold the source (we are inside the turnstile) until that many workers have begun - they
            // reserve their chunks and queue behind us - or 40 ms have passed
            let t0 = std::time::Instant::now();
            while (sched::live_workers() as u32) < self.hold_workers && t0.elapsed() < std::time::Duration::from_millis(40) {
                std::thread::sleep(std::time::Duration::from_micros(100));
            }
            std::thread::sleep(std::time::Duration::from_micros(300));
        }
        if self.sleep_us > 0 {
            // a slow source: whoever is in here holds the iterator while others reserve and queue
            std::thread::sleep(std::time::Duration::from_micros(self.sleep_us as u64));
        }
        let x = self.items.next();
        let p: i64 = if x.is_some() { self.pos as i64 } else { -1 };
        if self.log {
        sched::log_capped(&format!(
            "\"e\":\"nx\",\"a\":{},\"t\":{},\"pos\":{}",
            sched::actor(),
            sched::tid(),
            p
        ));
        }
        if x.is_some() {
            self.pos += 1;
        }
        self.inside.store(false, Ordering::SeqCst);
        x
    }
    fn size_hint(&self) -> (usize, Option<usize>) {
        if self.known {
            self.items.size_hint()
        } else {
            (0, None)
        }
    }
}

/// Endless source: position i carries value pattern[i mod len].
pub struct Unbounded {
    pattern: Vec<i32>,
    pos: usize,
}

impl Unbounded {
    pub fn new(pattern: Vec<i32>) -> Self {
        Unbounded { pattern, pos: 0 }
    }
}

impl Iterator for Unbounded {
    type Item = E;
    fn next(&mut self) -> Option<E> {
        let i = self.pos;
        self.pos += 1;
        Some(E::new(i as u32, self.pattern[i % self.pattern.len()]))
    }
}

pub fn items_of(prog: &Prog) -> Vec<E> {
    let l = prog.input.len().max(1);
    (0..prog.len())
        .map(|i| E::new(i as u32, prog.input[i % l]))
        .collect()
}
