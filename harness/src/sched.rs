//! Recorder + deterministic scheduler, fed by the `verif-hooks` of orx-parallel and by the
//! instrumented closures of the harness.
//!
//! Free mode: hooks and closures only log. Sched mode: every participating thread parks at its
//! yield points (spawner: the three runner hooks; worker: worker_begin and the entry of the
//! first closure evaluated per source element) and a baton is handed to exactly one parked
//! actor at a time, chosen by a script (replay) or by a seeded RNG.

use rand::{Rng, SeedableRng};
use rand_chacha::ChaCha8Rng;
use std::cell::Cell;
use std::collections::VecDeque;
use std::fmt::Write as _;
use std::sync::atomic::{AtomicU64, Ordering};
use std::sync::{Condvar, Mutex, MutexGuard};
use std::time::{Duration, Instant};

#[derive(Clone, Copy, PartialEq, Eq, Debug)]
enum St {
    Running,
    Parked,
    Done,
    /// granted, but spinning at the turnstile of a by-value iterator source that another actor holds
    /// while parked inside `next()`; not schedulable until the holder has released the source
    Blocked,
}

#[derive(Clone, Copy, PartialEq, Eq, Debug)]
enum Sp {
    Idle,
    Running,
    Parked,
    Joining,
}

pub struct Inner {
    pub sched: bool,
    abandon: bool,
    sp: Sp,
    workers: Vec<St>,
    granted: Option<usize>,
    script: VecDeque<u32>,
    rng: ChaCha8Rng,
    sticky: f64,
    last: usize,
    pub grants: Vec<u32>,
    pub diverged: Option<(usize, u32, Vec<u32>)>,
    // recorder
    buf: String,
    seq: u64,
    pub log_calls: bool,
    pub events_in_run: u64,
    pub runs_begun: u32,
    pub max_live: usize,
    live: usize,
    /// actor parked inside the source's next() (holding the turnstile)
    held: Option<usize>,
    /// hold mode: parked workers are always scheduled before the spawning thread
    pub workers_first: bool,
    grant_time: Instant,
    pub blocked_seen: u32,
}

static INNER: Mutex<Option<Inner>> = Mutex::new(None);
static CV: Condvar = Condvar::new();
static NEXT_TID: AtomicU64 = AtomicU64::new(1);

thread_local! {
    static ACTOR: Cell<u32> = const { Cell::new(0) };
    static TID: Cell<u64> = const { Cell::new(0) };
}

pub fn tid() -> u64 {
    TID.with(|t| {
        if t.get() == 0 {
            t.set(NEXT_TID.fetch_add(1, Ordering::Relaxed));
        }
        t.get()
    })
}

pub fn actor() -> u32 {
    ACTOR.with(|a| a.get())
}

fn lock() -> MutexGuard<'static, Option<Inner>> {
    INNER.lock().unwrap_or_else(|e| e.into_inner())
}

pub fn init() {
    let mut g = lock();
    *g = Some(Inner {
        sched: false,
        abandon: false,
        sp: Sp::Idle,
        workers: vec![],
        granted: None,
        script: VecDeque::new(),
        rng: ChaCha8Rng::seed_from_u64(0),
        sticky: 0.0,
        last: 0,
        grants: vec![],
        diverged: None,
        buf: String::new(),
        seq: 0,
        log_calls: true,
        events_in_run: 0,
        runs_begun: 0,
        max_live: 0,
        live: 0,
        held: None,
        workers_first: false,
        grant_time: Instant::now(),
        blocked_seen: 0,
    });
}

/// Prepares the scheduler for one program.
pub fn begin_program(sched: bool, script: Vec<u32>, seed: u64, sticky: f64, log_calls: bool, workers_first: bool) {
    let mut g = lock();
    let s = g.as_mut().expect("init");
    s.sched = sched;
    s.abandon = false;
    s.sp = Sp::Idle;
    s.workers.clear();
    s.granted = None;
    s.script = script.into();
    s.rng = ChaCha8Rng::seed_from_u64(seed);
    s.sticky = sticky;
    s.last = 0;
    s.grants.clear();
    s.diverged = None;
    s.log_calls = log_calls;
    s.events_in_run = 0;
    s.runs_begun = 0;
    s.max_live = 0;
    s.live = 0;
    s.held = None;
    s.blocked_seen = 0;
    s.workers_first = workers_first;
}

pub fn end_program() -> (Vec<u32>, Option<(usize, u32, Vec<u32>)>, u32, usize) {
    let mut g = lock();
    let s = g.as_mut().expect("init");
    s.sched = false;
    s.sp = Sp::Idle;
    (std::mem::take(&mut s.grants), s.diverged.take(), s.runs_begun, s.max_live)
}

/// Appends one event. `body` is the JSON object body without braces and without "i".
pub fn log(body: &str) {
    let mut g = lock();
    let s = g.as_mut().expect("init");
    log_in(s, body);
}

/// Per program, at most this many high-volume events (closure calls, source advances, reduce
/// calls) are recorded; a program that goes on (an endless evaluation) gets one `trunc` event.
const EVENT_CAP: u64 = 60_000;

fn log_in(s: &mut Inner, body: &str) {
    s.seq += 1;
    s.events_in_run += 1;
    let _ = writeln!(s.buf, "{{\"i\":{},{}}}", s.seq, body);
}

fn capped(s: &mut Inner) -> bool {
    if s.events_in_run < EVENT_CAP {
        return false;
    }
    if s.events_in_run == EVENT_CAP {
        log_in(s, "\"e\":\"trunc\"");
    }
    true
}

/// Appends one high-volume event unless the cap of the current program is reached.
pub fn log_capped(body: &str) {
    let mut g = lock();
    let s = g.as_mut().expect("init");
    if !capped(s) {
        log_in(s, body);
    }
}

pub fn take_buf() -> String {
    let mut g = lock();
    let s = g.as_mut().expect("init");
    std::mem::take(&mut s.buf)
}

fn candidates(s: &Inner) -> Vec<u32> {
    let mut c = vec![];
    if s.sp == Sp::Parked {
        c.push(0);
    }
    for (i, w) in s.workers.iter().enumerate() {
        if *w == St::Parked {
            c.push(i as u32 + 1);
        }
    }
    c
}

fn pick_next(s: &mut Inner) {
    let mut c = candidates(s);
    // the actor that holds the source inside next() goes last: everybody else first runs as far as it can
    if let Some(h) = s.held {
        if c.len() > 1 {
            c.retain(|x| *x as usize != h);
        }
    }
    if s.workers_first && c.iter().any(|x| *x != 0) {
        c.retain(|x| *x != 0);
    }
    if c.is_empty() {
        s.granted = None;
        CV.notify_all();
        return;
    }
    let mut choice: Option<u32> = None;
    if let Some(want) = s.script.pop_front() {
        if c.contains(&want) {
            choice = Some(want);
        } else if s.diverged.is_none() {
            s.diverged = Some((s.grants.len(), want, c.clone()));
            s.script.clear();
        }
    }
    let x = match choice {
        Some(x) => x,
        None => {
            if c.contains(&(s.last as u32)) && s.rng.gen::<f64>() < s.sticky {
                s.last as u32
            } else {
                c[s.rng.gen_range(0..c.len())]
            }
        }
    };
    s.last = x as usize;
    s.grants.push(x);
    s.granted = Some(x as usize);
    s.grant_time = Instant::now();
    CV.notify_all();
}

fn someone_running(s: &Inner) -> bool {
    match s.granted {
        None => false,
        Some(0) => s.sp == Sp::Running,
        Some(w) => s.workers.get(w - 1).map(|x| *x == St::Running).unwrap_or(false),
    }
}

/// The holder of the source watches the actor that has the baton: a worker that was granted and has
/// not parked within a few milliseconds is spinning at the turnstile we hold; it is set aside as
/// Blocked and the baton goes to the next actor.
fn unblock_watch(s: &mut Inner, me: usize) {
    if s.held != Some(me) {
        return;
    }
    if let Some(w) = s.granted {
        if w >= 1 && w != me && w <= s.workers.len() && s.workers[w - 1] == St::Running
            && s.grant_time.elapsed() > Duration::from_millis(3)
        {
            s.workers[w - 1] = St::Blocked;
            s.blocked_seen += 1;
            log_in(s, &format!("\"e\":\"blocked\",\"a\":{}", w));
            pick_next(s);
        }
    }
}

const STUCK: Duration = Duration::from_secs(20);

/// Blocks until `me` holds the baton (or the scheduler has been abandoned).
fn wait_grant(mut g: MutexGuard<'static, Option<Inner>>, me: usize) -> MutexGuard<'static, Option<Inner>> {
    let start = Instant::now();
    loop {
        {
            let s = g.as_mut().expect("init");
            if s.abandon || !s.sched || s.granted == Some(me) {
                return g;
            }
            unblock_watch(s, me);
            if s.granted == Some(me) {
                return g;
            }
            if start.elapsed() > STUCK {
                s.abandon = true;
                log_in(s, "\"e\":\"abandon\"");
                CV.notify_all();
                return g;
            }
        }
        let holding = g.as_ref().map(|s| s.held == Some(me)).unwrap_or(false);
        g = CV
            .wait_timeout(g, Duration::from_millis(if holding { 1 } else { 200 }))
            .unwrap_or_else(|e| e.into_inner())
            .0;
    }
}

/// Called by the instrumented source iterator at its hold position: the calling worker parks INSIDE
/// next(), i.e. while it holds the turnstile of the concurrent iterator.
pub fn source_hold_point() {
    let me = actor() as usize;
    let mut g = lock();
    {
        let s = g.as_mut().expect("init");
        if !(s.sched && !s.abandon && me >= 1 && me <= s.workers.len()) || s.held.is_some() {
            return;
        }
        s.held = Some(me);
        log_in(s, &format!("\"e\":\"hold\",\"a\":{}", me));
        s.workers[me - 1] = St::Parked;
        pick_next(s);
    }
    let mut g = wait_grant(g, me);
    let s = g.as_mut().expect("init");
    s.held = None;
    if let Some(w) = s.workers.get_mut(me - 1) {
        *w = St::Running;
    }
}

// ---------------------------------------------------------------- hooks

pub struct H;

impl orx_parallel::verif::Hooks for H {
    fn run_begin(&self, info: &orx_parallel::verif::RunInfo) {
        let mut g = lock();
        let s = g.as_mut().expect("init");
        s.runs_begun += 1;
        s.workers.clear();
        s.live = 0;
        s.sp = Sp::Running;
        s.granted = Some(0);
        let (nt, ntv) = match info.params.num_threads {
            orx_parallel::NumThreads::Auto => ("auto", 0),
            orx_parallel::NumThreads::Max(n) => ("max", n.get()),
        };
        let (ck, csv) = match info.params.chunk_size {
            orx_parallel::ChunkSize::Auto => ("auto", 0),
            orx_parallel::ChunkSize::Exact(n) => ("exact", n.get()),
            orx_parallel::ChunkSize::Min(n) => ("min", n.get()),
        };
        let body = format!(
            "\"e\":\"run_begin\",\"a\":0,\"t\":{},\"task\":\"{}\",\"entry\":\"{}\",\"nt\":\"{}\",\"ntv\":{},\"ck\":\"{}\",\"csv\":{},\"len\":{},\"max\":{},\"chunk\":{},\"exact\":{}",
            tid(),
            info.task,
            info.entry,
            nt,
            clamp(ntv),
            ck,
            clamp(csv),
            info.input_len.map(|x| clamp(x) as i64).unwrap_or(-1),
            clamp(info.max_num_threads),
            clamp(info.chunk),
            info.chunk_is_exact as u8
        );
        log_in(s, &body);
    }

    fn pre_decide(&self, n: usize) {
        spawner_hook("pre_decide", n, false);
    }

    fn pre_chunk(&self, n: usize) {
        spawner_hook("pre_chunk", n, false);
    }

    fn before_join(&self, n: usize) {
        spawner_hook("before_join", n, true);
    }

    fn worker_begin(&self, chunk: usize) {
        let mut g = lock();
        let me;
        {
            let s = g.as_mut().expect("init");
            s.workers.push(St::Parked);
            me = s.workers.len();
            ACTOR.with(|a| a.set(me as u32));
            s.live += 1;
            s.max_live = s.max_live.max(s.live);
            let body = format!("\"e\":\"wbegin\",\"a\":{},\"t\":{},\"c\":{}", me, tid(), clamp(chunk));
            log_in(s, &body);
            CV.notify_all();
            if !s.sched || s.abandon {
                s.workers[me - 1] = St::Running;
                return;
            }
        }
        let mut g = wait_grant(g, me);
        let s = g.as_mut().expect("init");
        if let Some(w) = s.workers.get_mut(me - 1) {
            *w = St::Running;
        }
    }

    fn worker_end(&self, panicking: bool) {
        let mut g = lock();
        let s = g.as_mut().expect("init");
        let me = actor() as usize;
        let body = format!("\"e\":\"wend\",\"a\":{},\"t\":{},\"p\":{}", me, tid(), panicking as u8);
        log_in(s, &body);
        s.live = s.live.saturating_sub(1);
        ACTOR.with(|a| a.set(0));
        let was_blocked = me >= 1 && me <= s.workers.len() && s.workers[me - 1] == St::Blocked;
        if me >= 1 && me <= s.workers.len() {
            s.workers[me - 1] = St::Done;
        }
        if s.sched && !s.abandon && (!was_blocked || !someone_running(s)) {
            pick_next(s);
        }
    }
}

fn clamp(x: usize) -> u64 {
    // TLC integers are 32 bit
    (x as u64).min(2_000_000_000)
}

fn spawner_hook(name: &str, n: usize, last: bool) {
    let mut g = lock();
    {
        let s = g.as_mut().expect("init");
        if !s.sched || s.abandon {
            let body = format!("\"e\":\"{}\",\"a\":0,\"t\":{},\"n\":{}", name, tid(), n);
            log_in(s, &body);
            return;
        }
    }
    // wait until every spawned worker has registered and nobody is running
    let start = Instant::now();
    loop {
        {
            let s = g.as_mut().expect("init");
            let quiet = s.workers.len() >= n && s.workers.iter().all(|w| *w != St::Running);
            if quiet || s.abandon {
                break;
            }
            if start.elapsed() > STUCK {
                s.abandon = true;
                log_in(s, "\"e\":\"abandon\"");
                CV.notify_all();
                break;
            }
        }
        g = CV
            .wait_timeout(g, Duration::from_millis(200))
            .unwrap_or_else(|e| e.into_inner())
            .0;
    }
    {
        let s = g.as_mut().expect("init");
        let body = format!("\"e\":\"{}\",\"a\":0,\"t\":{},\"n\":{}", name, tid(), n);
        log_in(s, &body);
        if s.abandon {
            return;
        }
        if last {
            s.sp = Sp::Joining;
            pick_next(s);
            return;
        }
        s.sp = Sp::Parked;
        pick_next(s);
    }
    let mut g = wait_grant(g, 0);
    let s = g.as_mut().expect("init");
    s.sp = Sp::Running;
}

/// Called by an instrumented closure at its entry. Logs the call and, if this closure is the
/// yield closure of the current run and the thread is a worker, parks.
pub fn closure_enter(stage: u32, key: u32, val: i32, is_yield: bool) {
    let me = actor() as usize;
    let mut g = lock();
    {
        let s = g.as_mut().expect("init");
        if s.log_calls && !capped(s) {
            let body = format!(
                "\"e\":\"call\",\"a\":{},\"t\":{},\"s\":{},\"k\":{},\"v\":{}",
                me,
                tid(),
                stage,
                key,
                val
            );
            log_in(s, &body);
        }
        if !(s.sched && !s.abandon && is_yield && me >= 1 && me <= s.workers.len()) {
            return;
        }
        // a worker that had been set aside as Blocked comes back without the baton
        let was_blocked = s.workers[me - 1] == St::Blocked;
        s.workers[me - 1] = St::Parked;
        if !was_blocked || !someone_running(s) {
            pick_next(s);
        }
    }
    let mut g = wait_grant(g, me);
    let s = g.as_mut().expect("init");
    if let Some(w) = s.workers.get_mut(me - 1) {
        *w = St::Running;
    }
}

/// Number of workers that have begun and not yet ended (free mode gauge).
pub fn live_workers() -> usize {
    let g = lock();
    g.as_ref().map(|s| s.live).unwrap_or(0)
}

pub fn is_sched_active() -> bool {
    let g = lock();
    g.as_ref().map(|s| s.sched && !s.abandon).unwrap_or(false)
}
