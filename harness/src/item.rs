//! The element type that flows through every pipeline of the harness.
//!
//! `E` carries a lineage key (source position, extended by the fan-out path of flat_map
//! stages), a small value (the only thing closures compute on), a unique token for
//! ownership accounting and a canary that makes a drop of never-initialised memory visible.

use std::sync::atomic::{AtomicBool, AtomicU32, AtomicU64, AtomicU8, Ordering};

const MAGIC: u32 = 0xC0FF_EE11;
const DEAD: u32 = 0xDEAD_DEAD;
const TABLE: usize = 1 << 23;

pub static TRACK: AtomicBool = AtomicBool::new(true);
static NEXT: AtomicU32 = AtomicU32::new(1);
static CREATED: AtomicU64 = AtomicU64::new(0);
static DROPPED: AtomicU64 = AtomicU64::new(0);
static DOUBLE: AtomicU64 = AtomicU64::new(0);
static BAD: AtomicU64 = AtomicU64::new(0);

fn table() -> &'static [AtomicU8] {
    static T: std::sync::OnceLock<Vec<AtomicU8>> = std::sync::OnceLock::new();
    T.get_or_init(|| (0..TABLE).map(|_| AtomicU8::new(0)).collect())
}

#[derive(Debug)]
pub struct E {
    pub key: u32,
    pub val: i32,
    tok: u32,
    canary: u32,
}

impl E {
    pub fn new(key: u32, val: i32) -> Self {
        let tok = if TRACK.load(Ordering::Relaxed) {
            let t = NEXT.fetch_add(1, Ordering::Relaxed);
            CREATED.fetch_add(1, Ordering::Relaxed);
            if (t as usize) < TABLE {
                table()[t as usize].store(1, Ordering::Relaxed);
            }
            t
        } else {
            0
        };
        E { key, val, tok, canary: MAGIC }
    }
}

impl Clone for E {
    fn clone(&self) -> Self {
        E::new(self.key, self.val)
    }
}

impl Drop for E {
    fn drop(&mut self) {
        if self.canary != MAGIC {
            // dropping memory that never held a live E (or that was dropped before)
            if self.canary == DEAD {
                DOUBLE.fetch_add(1, Ordering::Relaxed);
            } else {
                BAD.fetch_add(1, Ordering::Relaxed);
            }
            return;
        }
        self.canary = DEAD;
        if self.tok == 0 {
            return;
        }
        DROPPED.fetch_add(1, Ordering::Relaxed);
        if (self.tok as usize) < TABLE {
            let prev = table()[self.tok as usize].swap(2, Ordering::Relaxed);
            if prev != 1 {
                DOUBLE.fetch_add(1, Ordering::Relaxed);
            }
        }
    }
}

impl PartialEq for E {
    fn eq(&self, o: &Self) -> bool {
        self.key == o.key && self.val == o.val
    }
}
impl Eq for E {}
impl PartialOrd for E {
    fn partial_cmp(&self, o: &Self) -> Option<std::cmp::Ordering> {
        Some(self.cmp(o))
    }
}
impl Ord for E {
    fn cmp(&self, o: &Self) -> std::cmp::Ordering {
        (self.val, self.key).cmp(&(o.val, o.key))
    }
}
impl std::hash::Hash for E {
    fn hash<H: std::hash::Hasher>(&self, h: &mut H) {
        self.key.hash(h);
        self.val.hash(h);
    }
}
impl Default for E {
    fn default() -> Self {
        E::new(999_999, 0)
    }
}
impl std::ops::Add for E {
    type Output = E;
    fn add(self, o: E) -> E {
        E::new(self.key.min(o.key), self.val.wrapping_add(o.val))
    }
}

#[derive(Clone, Copy, Debug, Default)]
pub struct TokStats {
    pub created: u64,
    pub dropped: u64,
    pub double: u64,
    pub bad: u64,
}

impl TokStats {
    pub fn live(&self) -> i64 {
        self.created as i64 - self.dropped as i64
    }
}

pub fn tok_reset() {
    let used = (NEXT.load(Ordering::Relaxed) as usize).min(TABLE);
    let t = table();
    for x in t.iter().take(used) {
        x.store(0, Ordering::Relaxed);
    }
    NEXT.store(1, Ordering::Relaxed);
    CREATED.store(0, Ordering::Relaxed);
    DROPPED.store(0, Ordering::Relaxed);
    DOUBLE.store(0, Ordering::Relaxed);
    BAD.store(0, Ordering::Relaxed);
}

pub fn tok_stats() -> TokStats {
    TokStats {
        created: CREATED.load(Ordering::Relaxed),
        dropped: DROPPED.load(Ordering::Relaxed),
        double: DOUBLE.load(Ordering::Relaxed),
        bad: BAD.load(Ordering::Relaxed),
    }
}
