----------------------------- MODULE Gen_ParRun -----------------------------
(***************************************************************************)
(* Behaviour generator: ParRun with a history variable that records which  *)
(* actor takes each step (0 = spawning thread, w = worker w).  Every       *)
(* complete behaviour is printed as one JSON line                          *)
(*   {"p": program, "sched": [actors...], "res": model's result}           *)
(* which the harness replays in the real library: the deterministic        *)
(* scheduler grants the baton in exactly that order.                       *)
(***************************************************************************)
EXTENDS MC_ParRun, Json

VARIABLE hist

GInit == Init /\ hist = <<>>

GNext ==
  \/ (SDecideSpawn \/ SDecideStop \/ SChunkContinue \/ SChunkStop) /\ hist' = Append(hist, 0)
  \/ \E w \in 1..MaxW : (WStart(w) \/ WStep(w) \/ WPanic(w)) /\ hist' = Append(hist, w)
  \/ (SJoin \/ SSeq \/ SSeqPanic) /\ UNCHANGED hist

GSpec == GInit /\ [][GNext]_<<vars, hist>>

Emit == Done => PrintT(<<"GEN", ToJson([p |-> prog, sched |-> hist, spawned |-> sp.spawned])>>)
=============================================================================
