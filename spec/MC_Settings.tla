----------------------------- MODULE MC_Settings -----------------------------
(***************************************************************************)
(* Exhaustive check of the runner's parameter arithmetic (Settings.tla)    *)
(* over a grid: input length 0..MaxLen and unknown, every NumThreads and   *)
(* ChunkSize kind, small and large chunk values, every task.  The state is *)
(* one choice of the grid; there are no transitions.                       *)
(***************************************************************************)
EXTENDS Settings, FiniteSets

CONSTANTS MaxLen, MaxT

Avail == 16
Lens == (0..MaxLen) \cup {-1, 100, 1000, 4096, 65537, 1000000}
NtVals == 1..MaxT \cup {64}
ChunkVals == (1..16) \cup {63, 64, 65, 65536, 1048576, 16777216, 2000000000}
Tasks == {"Collect", "Reduce", "EarlyReturn"}

VARIABLE g
Grid(len) == [seed : {FALSE}, len : {len}, nt : {"auto", "max"}, ntv : NtVals, ck : {"auto", "min", "exact"},
              csv : ChunkVals, task : Tasks]
\* one initial state per length; its successors are the rest of the grid for that length (this
\* only spreads the enumeration over TLC's workers)
Init == \E len \in Lens : g = [seed |-> TRUE, len |-> len, nt |-> "auto", ntv |-> 1, ck |-> "auto", csv |-> 1, task |-> "Collect"]
Next == g.seed /\ g' \in Grid(g.len)
Spec == Init /\ [][Next]_g

T == CalcNumThreads(g.len, g.nt, g.ntv, Avail)
Ch == CalcChunk(g.task, g.len, T, g.ck, g.csv)

ThreadsPositive ==
  /\ T >= 1 /\ T <= Avail
  /\ g.nt = "max" => T <= g.ntv
  /\ g.len > 0 => T <= g.len

\* the assertion of ResolvedChunkSize::validate can never fire
ChunkPositive == Ch.c >= 1

\* Min(x): never more than asked for; smaller only when one round of all threads covers the input
MinChunkCoversInput ==
  g.ck = "min" => /\ Ch.c <= g.csv
                  /\ (Ch.c < g.csv /\ g.len > 0) => Ch.c * T >= g.len
                  /\ ~Ch.exact
\* Auto: a power of two, at most INITIAL_CHUNK_SIZE
AutoChunkIsPowerOfTwo ==
  g.ck = "auto" => \E e \in 0..20 : Ch.c = 2 ^ e

\* next_chunk_size: Exact keeps c; Min only grows, in multiples of the base
NextChunkSane ==
  g.len > 0 =>
    \A spawned \in 0..T : \A rem \in {1, g.len \div 2, g.len} :
       rem >= 1 /\ rem <= g.len =>
         LET nc == NextChunk(spawned, T, <<"Yes", rem>>, Ch.exact, Ch.c, g.len)
         IN  /\ nc >= 0
             /\ (nc = 0) = (spawned >= T - 1)
             /\ nc # 0 /\ Ch.exact => nc = Ch.c
             /\ nc # 0 /\ ~Ch.exact => nc >= Ch.c /\ nc % Ch.c = 0
=============================================================================
