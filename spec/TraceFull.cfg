SPECIFICATION TSpec
CONSTANTS
  MaxW = 16
  Avail = 16
CHECK_DEADLOCK FALSE
