----------------------------- MODULE MC_FindInf -----------------------------
(***************************************************************************)
(* Early exit on an UNBOUNDED source (C10, liveness clause).               *)
(*                                                                         *)
(* Finite abstraction: source positions 0..K-1 are concrete, every         *)
(* position >= K is the anonymous class "beyond" (the counter saturates at *)
(* K).  No position >= K matches, so the abstraction loses nothing: the    *)
(* first match, if any, is below K.  The source never runs dry, hence a    *)
(* worker can only stop by finding a match itself or by observing the      *)
(* early-exit flag at its next pull.                                       *)
(*                                                                         *)
(* Checked under weak fairness of every worker: if some position matches,  *)
(* every worker eventually stops (the terminal returns) - and with         *)
(* PublishExit = FALSE (a find kernel that forgets skip_to_end) the same   *)
(* formula fails, which is the vacuity check of this model.                *)
(***************************************************************************)
EXTENDS Naturals, FiniteSets

CONSTANTS K,            \* concrete positions 0..K-1
          NW,           \* workers (all spawned; the spawn loop is ParRun's business)
          C,            \* chunk size
          PublishExit   \* TRUE: a finder calls skip_to_end (the real kernels); FALSE: it forgets to

VARIABLES match,        \* set of matching positions (chosen initially, may be empty)
          counter,      \* min(positions handed out, K)
          exit,         \* early exit published
          wk            \* [pc, lo, hi, cur]; a chunk that starts at K is entirely "beyond"

vars == <<match, counter, exit, wk>>
Workers == 1..NW
Min(a, b) == IF a <= b THEN a ELSE b

Init ==
  /\ match \in SUBSET (0..(K - 1))
  /\ counter = 0 /\ exit = FALSE
  /\ wk = [w \in Workers |-> [pc |-> "pull", lo |-> 0, hi |-> 0, cur |-> 0]]

\* a pull never fails on an endless source unless early exit has been published
Pull(w) ==
  /\ wk[w].pc = "pull"
  /\ IF exit THEN wk' = [wk EXCEPT ![w].pc = "done"] /\ UNCHANGED counter
     ELSE /\ counter' = Min(counter + C, K)
          /\ wk' = [wk EXCEPT ![w] = [pc |-> "hold", lo |-> counter, hi |-> Min(counter + C, K), cur |-> counter]]
  /\ UNCHANGED <<match, exit>>

\* evaluate the element at cur (positions >= K never match: a chunk with lo = hi = K is all "beyond")
Eval(w) ==
  /\ wk[w].pc = "hold"
  /\ IF wk[w].cur < wk[w].hi /\ wk[w].cur \in match
     THEN /\ wk' = [wk EXCEPT ![w].pc = "done"]
          /\ exit' = (exit \/ PublishExit)
     ELSE /\ wk' = [wk EXCEPT ![w] = IF wk[w].cur + 1 < wk[w].hi THEN [@ EXCEPT !.cur = @ + 1] ELSE [@ EXCEPT !.pc = "pull"]]
          /\ UNCHANGED exit
  /\ UNCHANGED <<match, counter>>

Next == \E w \in Workers : Pull(w) \/ Eval(w)
Spec == Init /\ [][Next]_vars /\ \A w \in Workers : WF_vars(Pull(w) \/ Eval(w))

AllStopped == \A w \in Workers : wk[w].pc = "done"
\* C10: find / first / any / all terminate on an unbounded source whenever a match exists
TerminatesIfMatch == (match # {}) => <>AllStopped
\* and when nothing matches the computation (rightly) never ends
RunsForeverOtherwise == (match = {}) => []~AllStopped
\* after the flag is up nobody pulls a new chunk
NoPullAfterExit == [][exit => counter' = counter]_vars
=============================================================================
