--------------------------- MODULE MC_CollectInto ---------------------------
(***************************************************************************)
(* The dispatch of collect_into (src/par/collect_into/{vec,split_vec,      *)
(* fixed_vec}.rs) as a function of: the target kind, what the target       *)
(* already holds, whether the source length is known, the pipeline class   *)
(* (map-only pipelines go through the ordered bag, everything else through *)
(* per-thread buffers and the k-way merge) and sequential / parallel mode. *)
(* `out` stands for what the computation produces (ParRun shows it is the  *)
(* sequential output).  The state is one choice of the grid.               *)
(***************************************************************************)
EXTENDS Naturals, Sequences

VARIABLE g
Kinds == {"vec", "fixed", "split"}
Init == g \in [target : Kinds, pre : {<<>>, <<"p1">>, <<"p1", "p2">>}, known : BOOLEAN,
               mapOnly : BOOLEAN, seq : BOOLEAN, out : {<<>>, <<"a">>, <<"a", "b", "c">>},
               fixedVecUnknown : {"extend"}]     \* "discard" is the behaviour of the tree before the fix
Next == UNCHANGED g
Spec == Init /\ [][Next]_g

\* ordered bag built over a pinned vector that keeps its elements: results are written at
\* offset + idx, the prefix is never touched
ThroughBag(pre, out) == pre \o out
\* filtering pipelines: merged results are pushed after the existing elements
ThroughMerge(pre, out) == pre \o out

VecMapInto(pre, known, out, policy) ==
  IF known THEN ThroughBag(pre, out)                 \* reserve(len); FixedVec; bag; write at offset+idx
  ELSE IF policy = "extend" THEN pre \o ThroughBag(<<>>, out)   \* fresh SplitVec, then self.extend(..)
  ELSE ThroughBag(<<>>, out)                         \* (before the fix: self was dropped)

CollectInto ==
  LET vecLike == IF g.mapOnly THEN VecMapInto(g.pre, g.known, g.out, g.fixedVecUnknown)
                 ELSE ThroughMerge(g.pre, g.out)
  IN  CASE g.target = "vec" -> vecLike
        [] g.target = "fixed" -> vecLike              \* into_inner(), the Vec implementation, into()
        [] g.target = "split" -> IF g.mapOnly THEN ThroughBag(g.pre, g.out) ELSE ThroughMerge(g.pre, g.out)

\* C06
AppendsAfterPrefix == CollectInto = g.pre \o g.out
=============================================================================
