------------------------------ MODULE MC_Tokens ------------------------------
(***************************************************************************)
(* Who owns what: every element of an owning source (Vec) and every value  *)
(* a closure produces is a token that moves between owners.                *)
(*                                                                         *)
(*   source token i : "src" -> "held" (in a pulled chunk) -> "dropped"     *)
(*                    (consumed by the closure, drained from an abandoned  *)
(*                    chunk, dropped by skip_to_end or with the source)    *)
(*   output token i : "none" -> "buf" (per-thread vector) | "bag" (ordered *)
(*                    bag slot) | "found" -> "out" (returned) -> "dropped" *)
(*                    or -> "dropped" / "leaked" while unwinding           *)
(*                                                                         *)
(* Kernels: "bag" (map-only collect into the ordered bag), "merge"         *)
(* (filtering collect: per-thread buffers, k-way merge that reads every    *)
(* pair out by pointer once and then set_len(0)), "find" (early exit).     *)
(* With Panic = TRUE one closure call panics: the worker unwinds (its      *)
(* input, the rest of its chunk and its buffer are dropped), the others    *)
(* run on, the scope joins everybody and the caller unwinds.               *)
(* BagOnPanic is what happens to the partially filled bag then: "leak"     *)
(* (the repaired tree) or "dropAll" (the pinned tree: a bag with gaps      *)
(* drops its whole capacity, i.e. never-written slots too).                *)
(***************************************************************************)
EXTENDS Naturals, FiniteSets, Sequences

CONSTANTS NE,        \* source elements 1..NE
          NW,        \* workers
          C,         \* chunk sizes
          Panic,     \* whether a closure may panic
          BagOnPanic \* "leak" (repaired tree) | "dropAll" (pinned tree)

VARIABLES kernel, surv, c, bagOnPanic,
          src, outp, counter, wk, crash, phase, result, badDrops, dblDrops

vars == <<kernel, surv, c, bagOnPanic, src, outp, counter, wk, crash, phase, result, badDrops, dblDrops>>
Elems == 1..NE
Workers == 1..NW

Init ==
  /\ kernel \in {"bag", "merge", "find"}
  /\ surv \in SUBSET Elems                       \* which elements survive the filter / match
  /\ c \in C
  /\ bagOnPanic = BagOnPanic
  /\ src = [i \in Elems |-> "src"]
  /\ outp = [i \in Elems |-> "none"]
  /\ counter = 0
  /\ wk = [w \in Workers |-> [pc |-> "ready", lo |-> 0, hi |-> 0, cur |-> 0]]
  /\ crash \in (IF Panic THEN Elems ELSE {0})    \* the element whose closure call panics
  /\ phase = "run"
  /\ result = "none"
  /\ badDrops = 0 /\ dblDrops = 0

Min(a, b) == IF a <= b THEN a ELSE b

\* dropping a token: a second drop of the same token is a double drop
DropSrc(f, S) == [i \in Elems |-> IF i \in S THEN "dropped" ELSE f[i]]
Dbl(f, S) == Cardinality({i \in S : f[i] = "dropped"})

Pull(w) ==
  /\ phase = "run" /\ wk[w].pc \in {"ready", "pull"}
  /\ counter' = counter + c
  /\ IF counter < NE
     THEN /\ wk' = [wk EXCEPT ![w] = [pc |-> "hold", lo |-> counter + 1, hi |-> Min(counter + c, NE), cur |-> counter + 1]]
          /\ src' = [i \in Elems |-> IF i > counter /\ i <= Min(counter + c, NE) THEN "held" ELSE src[i]]
     ELSE /\ wk' = [wk EXCEPT ![w].pc = "done"]
          /\ UNCHANGED src
  /\ UNCHANGED <<kernel, surv, c, bagOnPanic, outp, crash, phase, result, badDrops, dblDrops>>

\* the closure consumes its input and (if the element survives) produces a value
Eval(w) ==
  /\ phase = "run" /\ wk[w].pc = "hold"
  /\ LET i == wk[w].cur IN
     /\ i # crash
     /\ dblDrops' = dblDrops + (IF src[i] = "dropped" THEN 1 ELSE 0)
     /\ IF kernel = "find" /\ i \in surv
        THEN \* match: keep it, publish early exit (the untaken tail of the Vec is dropped), abandon
             \* the rest of the chunk (drained by NoLeakIter)
             /\ outp' = [outp EXCEPT ![i] = "found"]
             /\ counter' = IF counter < NE THEN NE ELSE counter
             /\ LET tail == {j \in Elems : j > counter}
                    rest == {j \in Elems : j > i /\ j <= wk[w].hi}
                IN  src' = DropSrc([src EXCEPT ![i] = "dropped"], tail \cup rest)
             /\ wk' = [wk EXCEPT ![w].pc = "done"]
        ELSE /\ src' = [src EXCEPT ![i] = "dropped"]
             /\ outp' = [outp EXCEPT ![i] = IF kernel = "find" \/ ~(i \in surv) THEN "none"
                                              ELSE IF kernel = "bag" THEN "bag" ELSE "buf"]
             /\ wk' = [wk EXCEPT ![w] = IF i < wk[w].hi THEN [@ EXCEPT !.cur = i + 1] ELSE [@ EXCEPT !.pc = "pull"]]
             /\ UNCHANGED counter
  /\ UNCHANGED <<kernel, surv, c, bagOnPanic, crash, phase, result, badDrops>>

\* filtered-out values are dropped by the filter stage right away (they never get a token here)

\* the closure panics on element `crash`: unwinding drops its input, drains the rest of the chunk
\* and drops the worker's own buffer
PanicAt(w) ==
  /\ phase = "run" /\ wk[w].pc = "hold" /\ wk[w].cur = crash
  /\ LET rest == {j \in Elems : j >= crash /\ j <= wk[w].hi}
         mine == {j \in Elems : j >= wk[w].lo /\ j <= wk[w].hi /\ outp[j] = "buf"}
     IN  /\ src' = DropSrc(src, rest)
         /\ dblDrops' = dblDrops + Dbl(src, rest)
         /\ outp' = [j \in Elems |-> IF j \in mine THEN "dropped" ELSE outp[j]]
  /\ wk' = [wk EXCEPT ![w].pc = "panicked"]
  /\ UNCHANGED <<kernel, surv, c, bagOnPanic, counter, crash, phase, result, badDrops>>

Finished(w) == wk[w].pc \in {"done", "panicked"}
SomePanicked == \E w \in Workers : wk[w].pc = "panicked"

\* all threads joined; the source is dropped (its untaken tail with it); the caller combines or unwinds
Join ==
  /\ phase = "run" /\ \A w \in Workers : Finished(w)
  /\ LET tail == {j \in Elems : src[j] = "src"}
     IN  src' = DropSrc(src, tail)
  /\ IF SomePanicked
     THEN /\ result' = "panic"
          /\ outp' = [j \in Elems |->
                        CASE outp[j] = "buf" -> "dropped"              \* the joined threads' vectors drop normally
                          [] outp[j] = "found" -> "dropped"
                          [] outp[j] = "bag" -> IF bagOnPanic = "leak" THEN "leaked" ELSE "dropped"
                          [] OTHER -> outp[j]]
          \* a bag with gaps drops its whole capacity: every slot that was never written is a bad drop
          /\ badDrops' = IF kernel = "bag" /\ bagOnPanic = "dropAll"
                         THEN Cardinality({j \in Elems : outp[j] # "bag"}) ELSE badDrops
     ELSE /\ result' = "value"
          \* merge: each pair is read out by pointer exactly once, then set_len(0): moved, not dropped
          /\ outp' = [j \in Elems |-> IF outp[j] \in {"buf", "bag", "found"} THEN "out" ELSE outp[j]]
          /\ UNCHANGED badDrops
  /\ phase' = "returned"
  /\ UNCHANGED <<kernel, surv, c, bagOnPanic, counter, wk, crash, dblDrops>>

\* the caller drops the result
DropResult ==
  /\ phase = "returned"
  /\ outp' = [j \in Elems |-> IF outp[j] = "out" THEN "dropped" ELSE outp[j]]
  /\ phase' = "end"
  /\ UNCHANGED <<kernel, surv, c, bagOnPanic, src, counter, wk, crash, result, badDrops, dblDrops>>

Next == (\E w \in Workers : Pull(w) \/ Eval(w) \/ PanicAt(w)) \/ Join \/ DropResult
Spec == Init /\ [][Next]_vars /\ WF_vars(Next)

TypeOK == /\ \A i \in Elems : src[i] \in {"src", "held", "dropped"}
          /\ \A i \in Elems : outp[i] \in {"none", "buf", "bag", "found", "out", "dropped", "leaked"}
NoDoubleDrop == dblDrops = 0
NoBadDrop == badDrops = 0
\* C13: when nothing panics, after the result is dropped nothing is leaked
NoLeakAtEnd ==
  phase = "end" /\ result = "value" =>
     /\ \A i \in Elems : src[i] = "dropped"
     /\ \A i \in Elems : outp[i] \in {"none", "dropped"}
\* C14: a panicking closure makes the call panic; it never returns a value
PanicPropagates == (phase # "run" /\ SomePanicked) => result = "panic"
Finishes == <>(phase = "end")
=============================================================================
