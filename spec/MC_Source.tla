----------------------------- MODULE MC_Source -----------------------------
(***************************************************************************)
(* The concurrent iterator over a by-value Iterator (orx-concurrent-iter   *)
(* ConIterOfIter and its unordered variant ConIterOfIterX) at the grain of *)
(* single atomic operations - the sub-steps that ParRun treats as one      *)
(* atomic pull:                                                            *)
(*   Ticket   : begin = counter.fetch_add(c)                               *)
(*   Acquire  : CAS(yielded: begin -> MUTATING)   (X: AVAILABLE -> MUTATING)*)
(*              or observe COMPLETED and give up                           *)
(*   Fill     : one call of the user's Iterator::next                      *)
(*   Release  : CAS(MUTATING -> begin + c)  /  Complete: CAS(MUTATING ->   *)
(*              COMPLETED) when the iterator ran dry; both tolerate a      *)
(*              concurrent COMPLETED                                       *)
(*   Skip     : skip_to_end = store COMPLETED, at any time, by anyone      *)
(* Checked: next() is never entered by two threads, every element is       *)
(* handed out exactly once and in order, the ordered variant hands the     *)
(* holder of ticket b exactly the positions b, b+1, ..., nothing is        *)
(* pulled after COMPLETED, and all threads come to rest.                   *)
(***************************************************************************)
EXTENDS Naturals, Sequences, FiniteSets

CONSTANTS NT,        \* threads
          NE,        \* elements the iterator yields
          Chunks,    \* chunk sizes a thread may have been given
          EagerSkip  \* FALSE: the real kernels. TRUE: a thread may also call skip_to_end as soon as
                     \* has_more() reports No (a tempting "optimisation": has_more counts RESERVATIONS)

VARIABLES ordered,   \* which variant (chosen initially)
          counter,   \* tickets handed out
          gate,      \* [s |-> "at", v |-> n] | [s |-> "mut"] | [s |-> "done"]  (X: at 0 = AVAILABLE)
          itpos,     \* elements the user's iterator has yielded so far
          dry,       \* the iterator has returned None
          th,        \* per thread
          taken,     \* position -> how often it was handed out
          skipped    \* skip_to_end has been called

vars == <<ordered, counter, gate, itpos, dry, th, taken, skipped>>
Threads == 1..NT

At(n) == [s |-> "at", v |-> n]
Mut == [s |-> "mut", v |-> 0]
DoneG == [s |-> "done", v |-> 0]

Init ==
  /\ ordered \in BOOLEAN
  /\ counter = 0 /\ gate = At(0) /\ itpos = 0 /\ dry = FALSE /\ skipped = FALSE
  /\ th \in [Threads -> [pc : {"idle"}, c : Chunks, b : {0}, k : {0}, got : {<<>>}, pulls : {0}]]
  /\ taken = [i \in 0..(NE - 1) |-> 0]

Ticket(t) ==
  /\ th[t].pc = "idle"
  /\ counter' = counter + th[t].c
  /\ th' = [th EXCEPT ![t].pc = "spin", ![t].b = counter, ![t].k = 0, ![t].got = <<>>, ![t].pulls = @ + 1]
  /\ UNCHANGED <<ordered, gate, itpos, dry, taken, skipped>>

Acquire(t) ==
  /\ th[t].pc = "spin"
  /\ \/ /\ gate = (IF ordered THEN At(th[t].b) ELSE At(0))
        /\ gate' = Mut
        /\ th' = [th EXCEPT ![t].pc = "fill"]
     \/ /\ gate = DoneG
        /\ th' = [th EXCEPT ![t].pc = "end"]
        /\ UNCHANGED gate
  /\ UNCHANGED <<ordered, counter, itpos, dry, taken, skipped>>

\* one call of Iterator::next inside the critical section
Fill(t) ==
  /\ th[t].pc = "fill"
  /\ IF itpos < NE
     THEN /\ itpos' = itpos + 1
          /\ taken' = [taken EXCEPT ![itpos] = @ + 1]
          /\ th' = [th EXCEPT ![t].got = Append(@, itpos), ![t].k = @ + 1,
                              ![t].pc = IF th[t].k + 1 = th[t].c THEN "release" ELSE "fill"]
          /\ UNCHANGED dry
     ELSE /\ dry' = TRUE
          /\ th' = [th EXCEPT ![t].pc = "complete"]
          /\ UNCHANGED <<itpos, taken>>
  /\ UNCHANGED <<ordered, counter, gate, skipped>>

Release(t) ==
  /\ th[t].pc = "release"
  /\ gate' = IF gate = Mut THEN (IF ordered THEN At(th[t].b + th[t].c) ELSE At(0)) ELSE gate
  /\ th' = [th EXCEPT ![t].pc = "idle"]
  /\ UNCHANGED <<ordered, counter, itpos, dry, taken, skipped>>

Complete(t) ==
  /\ th[t].pc = "complete"
  /\ gate' = IF gate = Mut THEN DoneG ELSE gate
  /\ th' = [th EXCEPT ![t].pc = IF th[t].k = 0 THEN "end" ELSE "idle"]
  /\ UNCHANGED <<ordered, counter, itpos, dry, taken, skipped>>

\* early exit published by a thread that is between pulls
Skip(t) ==
  /\ th[t].pc = "idle" /\ ~skipped /\ th[t].pulls > 0
  /\ gate' = DoneG
  /\ skipped' = TRUE
  /\ th' = [th EXCEPT ![t].pc = "end"]
  /\ UNCHANGED <<ordered, counter, itpos, dry, taken>>

\* has_more() == No for a source of known length: everything is reserved (counter >= NE) or COMPLETED
HasMoreNo == counter >= NE \/ gate = DoneG
\* NOT in the library: skip_to_end because "nothing is left" (only with EagerSkip)
SkipBecauseNoMore(t) ==
  /\ EagerSkip /\ th[t].pc = "idle" /\ HasMoreNo /\ gate # DoneG
  /\ gate' = DoneG
  /\ th' = [th EXCEPT ![t].pc = "end"]
  /\ UNCHANGED <<ordered, counter, itpos, dry, taken, skipped>>

Next == \E t \in Threads : Ticket(t) \/ Acquire(t) \/ Fill(t) \/ Release(t) \/ Complete(t) \/ Skip(t) \/ SkipBecauseNoMore(t)
Spec == Init /\ [][Next]_vars /\ \A t \in Threads : WF_vars(Ticket(t) \/ Acquire(t) \/ Fill(t) \/ Release(t) \/ Complete(t))

Inside == {t \in Threads : th[t].pc \in {"fill", "release", "complete"}}

TypeOK == gate.s \in {"at", "mut", "done"} /\ itpos \in 0..NE
\* C05: the user's iterator is advanced by at most one thread at a time
MutualExclusion == Cardinality(Inside) <= 1
\* C05: every yielded element is handed out exactly once ...
EachOnce == \A i \in 0..(NE - 1) : taken[i] = (IF i < itpos THEN 1 ELSE 0)
\* ... in order; and in the ordered variant the holder of ticket b gets positions b, b+1, ...
InOrder ==
  \A t \in Threads :
     /\ \A i \in 1..Len(th[t].got) : i > 1 => th[t].got[i] = th[t].got[i - 1] + 1
     /\ ordered /\ th[t].got # <<>> => th[t].got[1] = th[t].b
\* C10: once COMPLETED is visible and the critical section is empty, the user's iterator is
\* never advanced again
NothingAfterComplete == [][gate = DoneG /\ Inside = {} => itpos' = itpos]_vars
\* unless a finder published early exit, every element has been handed out when all threads rest
\* (fails with EagerSkip: a thread that had reserved the tail is turned away before it pulled)
NothingLost == ((\A t \in Threads : th[t].pc = "end") /\ ~skipped) => itpos = NE
\* every thread comes to rest: the source ran dry or early exit was published
Quiesces == <>(\A t \in Threads : th[t].pc = "end")
=============================================================================
