------------------------------ MODULE TraceMon ------------------------------
(***************************************************************************)
(* Property monitors over traces recorded from the real library.           *)
(*                                                                         *)
(* The trace (ndjson, one event per line, many programs concatenated) is   *)
(* consumed one event per step.  The monitor never blocks: it is           *)
(* deliberately permissive about everything a property does not talk       *)
(* about (strict conformance to the full protocol is TraceFull.tla and     *)
(* never raises an alarm).  Every property is a set of named clauses       *)
(* C<nn>_<Name>(a, ev, b) over the monitor state before (a) and after (b)  *)
(* the event ev; all oracles are the TLA+ operators of Pipeline.tla        *)
(* evaluated by TLC on the program carried by the `prog` event.            *)
(* A clause that fails prints  "VIOL|clause|run|line|detail"  and         *)
(* the monitor goes on, so that every violation in a trace is reported.    *)
(***************************************************************************)
EXTENDS Pipeline, Json, IOUtils

Rec == ndJsonDeserialize(IOEnv.TRACE)

VARIABLES l, m
vars == <<l, m>>

NoRun == [e |-> "none"]

Fresh == [run |-> 0, mode |-> "none", cthr |-> 0, hasprog |-> FALSE, p |-> NoRun,
          out |-> <<>>, fcalls |-> <<>>, callbag |-> EmptyBag, lin |-> FALSE, seqmode |-> FALSE,
          params |-> DefaultParams, ty |-> "Empty", phase |-> "build",
          eagerSeen |-> FALSE, eagerAny |-> FALSE,
          calls |-> EmptyBag, allcalls |-> <<>>,
          live |-> 0, tids |-> << >>, wc |-> << >>, runno |-> 0, rb |-> NoRun,
          owner |-> << >>, nxa |-> 0, nxn |-> 0, nxend |-> FALSE, nxnext |-> 0, nxc |-> 0,
          matchRoots |-> {}, matched |-> {}, finderEnd |-> FALSE, after |-> << >>,
          crashed |-> FALSE, bound |-> 0, trunc |-> FALSE, tepanic |-> FALSE, big |-> FALSE, dig |-> [n |-> 0, hs |-> 0, hu |-> 0, sum |-> 0, mink |-> -1], nviol |-> 0, nruns |-> 0, nchecked |-> 0]

Get(f, x, d) == IF x \in DOMAIN f THEN f[x] ELSE d
Put(f, x, v) == IF x \in DOMAIN f THEN [f EXCEPT ![x] = v] ELSE f @@ (x :> v)

(***************************************************************************)
(* NtBound: the n of "num_threads set to Max(n) on the source": exactly    *)
(* one nt op, placed before every visible stage, with a positive value.    *)
(* 0 = the program gives no bound (C08 clauses are then vacuous).          *)
(***************************************************************************)
NtOps(p) == SelectSeq(p.ops, LAMBDA o : o.k = "nt")
RECURSIVE FirstVisibleStage(_, _)
FirstVisibleStage(ops, i) == IF i > Len(ops) THEN i
                             ELSE IF IsStage(ops[i]) /\ ops[i].h = 0 THEN i
                             ELSE FirstVisibleStage(ops, i + 1)
NtBound(p) == LET nts == NtOps(p)
                  fv == FirstVisibleStage(p.ops, 1)
              IN  IF Len(nts) = 1 /\ nts[1].v > 0
                     /\ \E i \in 1..(fv - 1) : p.ops[i].k = "nt"
                  THEN nts[1].v ELSE 0

FlatBefore(p, s) == LET st == Stages(p)
                        upto == IF s >= TermStage THEN Len(st) ELSE s - 1
                    IN  Cardinality({i \in 1..upto : st[i].k = "flat"})
RootOfCall(p, c) == c[2] \div Pow(FAN, FlatBefore(p, c[1]))

IsInf(p) == p.src = "inf"
NoEager(p) == EagerStages(p) = {}

(***************************************************************************)
(* State update per event.                                                 *)
(***************************************************************************)
InitRun(ev) ==
  LET p == ev.p
      fpe == IF IsBig(p) THEN <<>> ELSE FullPerElem(p)
      out == OutOf(fpe)
      fc == CallsOf(fpe)
  IN  [Fresh EXCEPT !.big = IsBig(p), !.dig = IF IsBig(p) THEN BigDigest(p) ELSE Fresh.dig, !.run = ev.run, !.mode = ev.mode, !.cthr = ev.cthr, !.hasprog = TRUE, !.p = p,
                    !.out = out, !.fcalls = fc, !.callbag = BagOfSeq(fc),
                    !.lin = (ev.mode \in {"rand", "replay"}),
                    !.seqmode = IsSequential(FinalParams(p)),
                    !.matchRoots = IF p.term.k \in FindTerms
                                   THEN {RootOf(p, out[i].k) : i \in {j \in 1..Len(out) : Wanted(p, out[j])}}
                                   ELSE {},
                    !.bound = NtBound(p)]

CloseBurst(a) == [a EXCEPT !.nxa = 0, !.nxn = 0, !.nxend = FALSE]

After(a, ev) ==
  CASE ev.e = "op" ->
         IF ev.k = "src"
         THEN [a EXCEPT !.ty = IF \E i \in 1..Len(a.p.ops) : IsStage(a.p.ops[i]) /\ a.p.ops[i].h = 1
                                THEN "Map" ELSE "Empty"]
         ELSE IF ev.k \in StageKinds
              THEN [a EXCEPT !.ty = Trans(a.ty, ev.k)[1], !.eagerSeen = FALSE]
              ELSE [a EXCEPT !.params = SetParam(a.params, ev), !.eagerSeen = FALSE]
    [] ev.e = "built" -> [a EXCEPT !.phase = "term"]
    [] ev.e = "run_begin" ->
         [a EXCEPT !.runno = @ + 1, !.rb = ev, !.wc = << >>, !.live = 0,
                   !.eagerSeen = (a.phase = "build") \/ @, !.eagerAny = (a.phase = "build") \/ @]
    [] ev.e = "wbegin" -> [a EXCEPT !.live = @ + 1, !.wc = Put(@, ev.a, ev.c)]
    [] ev.e = "wend" ->
         LET b1 == IF a.nxa = ev.a THEN CloseBurst(a) ELSE a
         IN  [b1 EXCEPT !.live = IF @ > 0 THEN @ - 1 ELSE 0,
                        !.finderEnd = @ \/ (ev.p = 0 /\ ev.a \in a.matched)]
    [] ev.e = "call" ->
         LET c == <<ev.s, ev.k, ev.v>>
             b1 == IF a.nxa = ev.a THEN CloseBurst(a) ELSE a
             first == ev.s = FirstStage(a.p) /\ ev.s # KeyStage
             blk == IF a.params.ck = "exact" /\ a.params.csv > 0 THEN ev.k \div a.params.csv ELSE 0
         IN  [b1 EXCEPT !.calls = IF ev.s = KeyStage \/ IsInf(a.p) \/ a.trunc THEN @ ELSE BagAdd(@, c),
                        \* (kept only as far as it can still be a prefix of the sequential calls)
                        !.allcalls = IF a.seqmode /\ ev.s # KeyStage /\ Len(@) <= Len(a.fcalls) + 4
                                     THEN Append(@, c) ELSE @,
                        !.tids = Put(@, ev.s, Get(@, ev.s, {}) \cup {ev.t}),
                        !.eagerSeen = (a.phase = "build") \/ @,
                        !.eagerAny = (a.phase = "build") \/ @,
                        !.owner = IF first /\ a.runno = 1 /\ a.params.ck = "exact" /\ ~(blk \in DOMAIN @)
                                  THEN @ @@ (blk :> ev.a) ELSE @,
                        !.matched = IF first /\ ev.a > 0 /\ RootOfCall(a.p, c) \in a.matchRoots
                                    THEN @ \cup {ev.a} ELSE @,
                        !.after = IF first /\ a.finderEnd /\ ev.a > 0
                                  THEN Put(@, ev.a, Get(@, ev.a, 0) + 1) ELSE @,
                        !.crashed = @ \/ (ev.s = a.p.cs /\ ev.k = a.p.ck)]
    [] ev.e = "red" -> [a EXCEPT !.tids = Put(@, 98, Get(@, 98, {}) \cup {ev.t})]
    [] ev.e = "nx" ->
         LET b1 == IF a.nxa # ev.a THEN [CloseBurst(a) EXCEPT !.nxa = ev.a, !.nxc = Get(a.wc, ev.a, 0)] ELSE a
         IN  [b1 EXCEPT !.nxn = IF ev.pos >= 0 THEN @ + 1 ELSE @,
                        !.nxend = @ \/ (ev.pos < 0),
                        !.nxnext = IF ev.pos >= 0 THEN ev.pos + 1 ELSE @,
                        !.eagerSeen = (a.phase = "build") \/ @,
                        !.eagerAny = (a.phase = "build") \/ @]
    [] ev.e = "te" -> [a EXCEPT !.phase = "done", !.nchecked = @ + 1, !.tepanic = (ev.kind = "panic")]
    [] ev.e = "abandon" -> [a EXCEPT !.lin = FALSE]
    [] ev.e = "trunc" -> [a EXCEPT !.trunc = TRUE]      \* the recorder stopped recording calls
    [] OTHER -> a

(***************************************************************************)
(* Result oracle: what the terminal must have returned.                    *)
(***************************************************************************)
PrefixPairs(p) == IF p.term.k = "collect_into"
                  THEN [i \in 1..Len(p.term.pre) |-> <<1000000 + (i - 1), p.term.pre[i]>>]
                  ELSE <<>>
EvPairs(ev) == ZipKV(ev.rk, ev.rv)
OrderSensitive(p) == p.term.k \in {"reduce", "fold"} /\ p.term.op \in {"sub", "poly"}

ExtremalSet(p, out) ==
  LET ks == {ByKey(p, out[i]) : i \in 1..Len(out)}
      best == IF p.term.k \in {"min_by", "min_by_key"} THEN MinOfSet(ks) ELSE MaxOfSet(ks)
  IN  {<<out[i].k, out[i].v>> : i \in {j \in 1..Len(out) : ByKey(p, out[j]) = best}}

\* first extremal element: what the left fold of the documented reduce-based definition gives
FirstExtremal(p, out) ==
  LET ks == {ByKey(p, out[i]) : i \in 1..Len(out)}
      best == IF p.term.k \in {"min_by", "min_by_key"} THEN MinOfSet(ks) ELSE MaxOfSet(ks)
      i == MinOfSet({j \in 1..Len(out) : ByKey(p, out[j]) = best})
  IN  <<out[i].k, out[i].v>>

ResultOK(a, ev) ==
  LET p == a.p
      out == a.out
      k == p.term.k
      fm == FirstMatch(p, out)
      mink == MinOfSet({out[i].k : i \in 1..Len(out)})
  IN  CASE ev.kind = "panic" -> FALSE
        [] a.big -> (CASE k \in CollectTerms /\ PrefixPairs(p) = <<>> ->
                            ev.kind = "col" /\ ev.n = a.dig.n /\ ev.hs = a.dig.hs /\ ev.hu = a.dig.hu
                       [] k = "collect_x" -> ev.kind = "col" /\ ev.n = a.dig.n /\ ev.hu = a.dig.hu
                       [] k = "count" -> ev.kind = "cnt" /\ ev.n = a.dig.n
                       [] k \in {"find", "first"} ->
                            LET f == BigFirst(p)
                            IN  ev.kind = "opt" /\ (IF f = <<>> THEN ev.found = 0
                                                    ELSE ev.found = 1 /\ ev.rk[1] = f[1].k /\ ev.rv[1] = f[1].v)
                       [] k \in {"find_idx", "first_idx"} ->
                            LET f == BigFirst(p)
                            IN  ev.kind = "optidx" /\ (IF f = <<>> THEN ev.found = 0
                                                       ELSE ev.found = 1 /\ ev.rk[1] = f[1].k /\ ev.rv[1] = f[1].v
                                                            /\ ev.idx = RootOf(p, f[1].k))
                       [] k \in {"any", "all"} ->
                            ev.kind = "bool" /\ (ev.b = 1) = ((BigFirst(p) # <<>>) = (k = "any"))
                       [] k = "reduce" /\ p.term.op = "add" ->
                            ev.kind = "opt" /\ (IF a.dig.n = 0 THEN ev.found = 0
                                                ELSE ev.found = 1 /\ ev.rv[1] = a.dig.sum /\ ev.rk[1] = a.dig.mink)
                       [] OTHER -> TRUE)
        [] k \in CollectTerms -> ev.kind = "col" /\ EvPairs(ev) = PrefixPairs(p) \o Pairs(out)
        [] k = "collect_x" -> ev.kind = "col" /\ BagEq(BagOfSeq(EvPairs(ev)), BagOfSeq(Pairs(out)))
        [] k = "count" -> ev.kind = "cnt" /\ ev.n = Len(out)
        [] k = "for_each" -> ev.kind = "unit"
        [] k \in {"find", "first"} ->
             ev.kind = "opt" /\ (IF fm = 0 THEN ev.found = 0
                                 ELSE ev.found = 1 /\ ev.rk[1] = out[fm].k /\ ev.rv[1] = out[fm].v)
        [] k \in {"find_idx", "first_idx"} ->
             ev.kind = "optidx" /\ (IF fm = 0 THEN ev.found = 0
                                    ELSE ev.found = 1 /\ ev.rk[1] = out[fm].k /\ ev.rv[1] = out[fm].v
                                         /\ ev.idx = RootOf(p, out[fm].k))
        [] k = "any" -> ev.kind = "bool" /\ (ev.b = 1) = (fm # 0)
        [] k = "all" -> ev.kind = "bool" /\ (ev.b = 1) = (fm = 0)
        [] k \in {"reduce", "fold", "sum"} ->
             ev.kind = "opt" /\
             (IF out = <<>> THEN (IF k = "reduce" THEN ev.found = 0
                                  ELSE ev.found = 1 /\ ev.rv[1] = 0 /\ ev.rk[1] = 999999)
              ELSE ev.found = 1 /\ ev.rk[1] = mink
                   /\ ((OrderSensitive(p) /\ ~a.seqmode) \/ ev.rv[1] = LeftFold(OpOfTerm(p), Vals(out))))
        [] k \in {"min", "max"} ->
             ev.kind = "opt" /\
             (IF out = <<>> THEN ev.found = 0
              ELSE ev.found = 1 /\ ev.rv[1] = LeftFold(OpOfTerm(p), Vals(out))
                   /\ <<ev.rk[1], ev.rv[1]>> \in SeqRange(Pairs(out)))
        [] k \in {"min_by", "max_by", "min_by_key", "max_by_key"} ->
             ev.kind = "opt" /\
             (IF out = <<>> THEN ev.found = 0
              ELSE ev.found = 1 /\ <<ev.rk[1], ev.rv[1]>> \in ExtremalSet(p, out)
                   /\ (a.seqmode => <<ev.rk[1], ev.rv[1]>> = FirstExtremal(p, out)))
        [] OTHER -> FALSE

Normal(a, ev) == ev.e = "te" /\ a.p.cs < 0          \* a terminal returned in a program without crash point
IsTe(ev) == ev.e = "te"

StageSub(calls, s) == SelectSeq(calls, LAMBDA c : c[1] = s)
IsPrefixOf(s, t) == Len(s) <= Len(t) /\ \A i \in 1..Len(s) : s[i] = t[i]
CallStages(a) == {a.fcalls[i][1] : i \in 1..Len(a.fcalls)} \cup {a.allcalls[i][1] : i \in 1..Len(a.allcalls)}

RECURSIVE FirstWantedCall(_, _, _)
FirstWantedCall(p, calls, i) ==
  IF i > Len(calls) THEN 0
  ELSE IF calls[i][1] = TermStage /\ Wanted(p, Elem(calls[i][2], calls[i][3])) THEN i
  ELSE FirstWantedCall(p, calls, i + 1)

(***************************************************************************)
(* The clauses.  Each is TRUE when it holds or does not apply.             *)
(***************************************************************************)
C01_OrderedCollect(a, ev, b) ==
  Normal(a, ev) /\ a.p.term.k \in CollectTerms /\ PrefixPairs(a.p) = <<>> => ResultOK(a, ev)

C02_FirstMatch(a, ev, b) ==
  Normal(a, ev) /\ a.p.term.k \in FindTerms => ResultOK(a, ev)

C03_ReduceAll(a, ev, b) ==
  Normal(a, ev) /\ a.p.term.k \in ReduceTerms /\ ~(OrderSensitive(a.p) /\ ~a.seqmode) => ResultOK(a, ev)

C04_Count(a, ev, b) ==
  Normal(a, ev) /\ a.p.term.k = "count" => ResultOK(a, ev)
C04_ForEach(a, ev, b) ==
  Normal(a, ev) /\ a.p.term.k = "for_each" /\ ~a.big /\ ~a.trunc =>
     ev.kind = "unit" /\ BagEq(BagOfSeq(StageSub(a.fcalls, TermStage)),
                               [c \in {x \in DOMAIN a.calls : x[1] = TermStage} |-> a.calls[c]])

C05_NeverMoreThanSequential(a, ev, b) ==
  ev.e = "call" /\ ev.s # KeyStage /\ ~IsInf(a.p) /\ ~a.big =>
     BagCount(b.calls, <<ev.s, ev.k, ev.v>>) <= BagCount(a.callbag, <<ev.s, ev.k, ev.v>>)
C05_ExactlySequential(a, ev, b) ==
  Normal(a, ev) /\ ev.kind # "panic" /\ a.p.term.k \in FullTerms /\ ~a.big /\ ~a.trunc => BagEq(a.calls, a.callbag)
C05_NoReentrancy(a, ev, b) == ev.e # "reent"
C05_SourceInOrder(a, ev, b) == ev.e = "nx" /\ ev.pos >= 0 => ev.pos = a.nxnext

C06_AppendsAfterPrefix(a, ev, b) ==
  Normal(a, ev) /\ a.p.term.k = "collect_into" => ResultOK(a, ev)

C07_Permutation(a, ev, b) ==
  Normal(a, ev) /\ a.p.term.k = "collect_x" => ResultOK(a, ev)

C08_LiveWorkers(a, ev, b) == ev.e = "wbegin" /\ a.bound > 0 => b.live <= a.bound
C08_Spawned(a, ev, b) == ev.e \in {"pre_decide", "pre_chunk", "before_join"} /\ a.bound > 0 => ev.n <= a.bound
C08_ThreadsPerClosure(a, ev, b) ==
  ev.e = "call" /\ ev.s # KeyStage /\ a.bound > 0 => Cardinality(b.tids[ev.s]) <= a.bound
\* the reduce operator and the key/compare closures it calls
C08_ReduceOpThreads(a, ev, b) ==
  a.bound > 0 => /\ ev.e = "red" => Cardinality(b.tids[98]) <= a.bound
                 /\ ev.e = "call" /\ ev.s = KeyStage => Cardinality(b.tids[KeyStage]) <= a.bound
C08_SequentialOnCaller(a, ev, b) ==
  a.bound = 1 => /\ ev.e \in {"call", "red", "nx"} => ev.t = a.cthr
                 /\ ~(ev.e \in {"run_begin", "wbegin"})

C09_SequentialValue(a, ev, b) ==
  Normal(a, ev) /\ a.seqmode /\ a.p.term.k # "collect_x" => ResultOK(a, ev)
C09_StageOrder(a, ev, b) ==
  Normal(a, ev) /\ a.seqmode /\ ev.kind # "panic" /\ ~IsInf(a.p) /\ ~a.big /\ ~a.trunc =>
     \A s \in CallStages(a) :
        IF a.p.term.k \in FullTerms
        THEN StageSub(a.allcalls, s) = StageSub(a.fcalls, s)
        ELSE IsPrefixOf(StageSub(a.allcalls, s), StageSub(a.fcalls, s))
C09_OnCaller(a, ev, b) ==
  a.seqmode /\ a.hasprog => /\ ev.e \in {"call", "red", "nx"} => ev.t = a.cthr
                            /\ ~(ev.e \in {"run_begin", "wbegin"})

\* after the finder has finished (it publishes early exit before it ends) every other thread
\* evaluates at most what it already holds: at most one chunk (we allow two)
C10_BoundedAfterMatch(a, ev, b) ==
  ev.e = "call" /\ ev.a > 0 /\ a.p.term.k \in FindTerms /\ NoEager(a.p) /\ a.finderEnd
     /\ ev.s = FirstStage(a.p) => Get(b.after, ev.a, 0) <= 2 * Get(a.wc, ev.a, 1)
C10_Terminates(a, ev, b) == ev.e # "hang" \/ ~(a.p.term.k \in FindTerms)
C10_SequentialStopsAtMatch(a, ev, b) ==
  Normal(a, ev) /\ a.seqmode /\ a.p.term.k \in FindTerms /\ NoEager(a.p) /\ ev.kind # "panic"
     /\ a.matchRoots # {} =>
     LET root == MinOfSet(a.matchRoots)
     IN  /\ \A i \in 1..Len(a.allcalls) : RootOfCall(a.p, a.allcalls[i]) <= root
         /\ TermHasClosure(a.p) /\ ~IsInf(a.p) =>
              a.allcalls = SubSeq(a.fcalls, 1, FirstWantedCall(a.p, a.fcalls, 1))

C11_ChunkGiven(a, ev, b) ==
  ev.e = "wbegin" /\ a.params.ck = "exact" => ev.c = a.params.csv
C11_AlignedBlockOneThread(a, ev, b) ==
  ev.e = "call" /\ ev.a > 0 /\ a.runno = 1 /\ a.params.ck = "exact" /\ a.params.csv > 0
     /\ ev.s = FirstStage(a.p) /\ ev.s # KeyStage /\ Adv(a.p) = 0 /\ ~("elems" \in DOMAIN a.p) =>
     b.owner[ev.k \div a.params.csv] = ev.a
\* a burst of next() calls of one worker on a by-value iterator: c elements, fewer only at the end
BurstOK(a) == a.nxn = 0 \/ a.nxend \/ a.nxc = 0
              \/ (IF FirstStage(a.p) = TermStage /\ ~TermHasClosure(a.p)
                  THEN a.nxn % a.nxc = 0 ELSE a.nxn = a.nxc)
C11_BurstIsChunk(a, ev, b) ==
  a.params.ck = "exact" /\ a.nxa > 0
     /\ ((ev.e \in {"call", "wend"} /\ ev.a = a.nxa) \/ (ev.e = "nx" /\ ev.a # a.nxa)) => BurstOK(a)

C12_ParamsPropagate(a, ev, b) ==
  ev.e = "par" => /\ ev.nt = a.params.nt /\ ev.ntv = a.params.ntv
                  /\ ev.ck = a.params.ck /\ ev.csv = a.params.csv
                  /\ (ev.seq = 1) = IsSequential(a.params)

C13_NoLeakNoDouble(a, ev, b) ==
  ev.e = "tok" /\ a.p.cs < 0 /\ a.phase = "done" /\ ~a.tepanic => ev.live = 0 /\ ev.double = 0 /\ ev.bad = 0

C14_PanicPropagates(a, ev, b) == IsTe(ev) /\ a.crashed => ev.kind = "panic"
C14_NoBadDrop(a, ev, b) == ev.e = "tok" /\ a.p.cs >= 0 => ev.double = 0 /\ ev.bad = 0
C14_NoHangNoAbort(a, ev, b) == ev.e \in {"hang", "abort"} => a.p.cs < 0

C15_NoPanic(a, ev, b) == Normal(a, ev) => ev.kind # "panic"
C15_SameAsSequential(a, ev, b) ==
  Normal(a, ev) /\ ev.kind # "panic" /\ ~(OrderSensitive(a.p) /\ ~a.seqmode) => ResultOK(a, ev)
C15_NoAbort(a, ev, b) == ev.e = "abort" => a.p.cs >= 0

\* nothing runs while the computation is being built; the site is the (type, transformation) pair
C16_LazyBuild(a, ev, b) ==
  ev.e = "op" /\ ev.k # "src" => ~a.eagerSeen
C16_LazySource(a, ev, b) == ev.e = "op" /\ ev.k = "src" => ~a.eagerSeen
C16_LazyUntilTerminal(a, ev, b) == ev.e = "built" => ~a.eagerSeen
C16_TerminalParams(a, ev, b) ==
  ev.e = "run_begin" /\ a.phase = "term" =>
     /\ ev.nt = a.params.nt /\ ev.ntv = a.params.ntv /\ ev.ck = a.params.ck /\ ev.csv = a.params.csv

Clauses == {"C01_OrderedCollect", "C02_FirstMatch", "C03_ReduceAll", "C04_Count", "C04_ForEach",
            "C05_NeverMoreThanSequential", "C05_ExactlySequential", "C05_NoReentrancy", "C05_SourceInOrder",
            "C06_AppendsAfterPrefix", "C07_Permutation",
            "C08_LiveWorkers", "C08_Spawned", "C08_ThreadsPerClosure", "C08_ReduceOpThreads",
            "C08_SequentialOnCaller",
            "C09_SequentialValue", "C09_StageOrder", "C09_OnCaller",
            "C10_BoundedAfterMatch", "C10_Terminates", "C10_SequentialStopsAtMatch",
            "C11_ChunkGiven", "C11_AlignedBlockOneThread", "C11_BurstIsChunk",
            "C12_ParamsPropagate", "C13_NoLeakNoDouble",
            "C14_PanicPropagates", "C14_NoBadDrop", "C14_NoHangNoAbort",
            "C15_NoPanic", "C15_SameAsSequential", "C15_NoAbort",
            "C16_LazyBuild", "C16_LazySource", "C16_LazyUntilTerminal", "C16_TerminalParams"}

Holds(c, a, ev, b) ==
  CASE c = "C01_OrderedCollect" -> C01_OrderedCollect(a, ev, b)
    [] c = "C02_FirstMatch" -> C02_FirstMatch(a, ev, b)
    [] c = "C03_ReduceAll" -> C03_ReduceAll(a, ev, b)
    [] c = "C04_Count" -> C04_Count(a, ev, b)
    [] c = "C04_ForEach" -> C04_ForEach(a, ev, b)
    [] c = "C05_NeverMoreThanSequential" -> C05_NeverMoreThanSequential(a, ev, b)
    [] c = "C05_ExactlySequential" -> C05_ExactlySequential(a, ev, b)
    [] c = "C05_NoReentrancy" -> C05_NoReentrancy(a, ev, b)
    [] c = "C05_SourceInOrder" -> C05_SourceInOrder(a, ev, b)
    [] c = "C06_AppendsAfterPrefix" -> C06_AppendsAfterPrefix(a, ev, b)
    [] c = "C07_Permutation" -> C07_Permutation(a, ev, b)
    [] c = "C08_LiveWorkers" -> C08_LiveWorkers(a, ev, b)
    [] c = "C08_Spawned" -> C08_Spawned(a, ev, b)
    [] c = "C08_ThreadsPerClosure" -> C08_ThreadsPerClosure(a, ev, b)
    [] c = "C08_ReduceOpThreads" -> C08_ReduceOpThreads(a, ev, b)
    [] c = "C08_SequentialOnCaller" -> C08_SequentialOnCaller(a, ev, b)
    [] c = "C09_SequentialValue" -> C09_SequentialValue(a, ev, b)
    [] c = "C09_StageOrder" -> C09_StageOrder(a, ev, b)
    [] c = "C09_OnCaller" -> C09_OnCaller(a, ev, b)
    [] c = "C10_BoundedAfterMatch" -> C10_BoundedAfterMatch(a, ev, b)
    [] c = "C10_Terminates" -> C10_Terminates(a, ev, b)
    [] c = "C10_SequentialStopsAtMatch" -> C10_SequentialStopsAtMatch(a, ev, b)
    [] c = "C11_ChunkGiven" -> C11_ChunkGiven(a, ev, b)
    [] c = "C11_AlignedBlockOneThread" -> C11_AlignedBlockOneThread(a, ev, b)
    [] c = "C11_BurstIsChunk" -> C11_BurstIsChunk(a, ev, b)
    [] c = "C12_ParamsPropagate" -> C12_ParamsPropagate(a, ev, b)
    [] c = "C13_NoLeakNoDouble" -> C13_NoLeakNoDouble(a, ev, b)
    [] c = "C14_PanicPropagates" -> C14_PanicPropagates(a, ev, b)
    [] c = "C14_NoBadDrop" -> C14_NoBadDrop(a, ev, b)
    [] c = "C14_NoHangNoAbort" -> C14_NoHangNoAbort(a, ev, b)
    [] c = "C15_NoPanic" -> C15_NoPanic(a, ev, b)
    [] c = "C15_SameAsSequential" -> C15_SameAsSequential(a, ev, b)
    [] c = "C15_NoAbort" -> C15_NoAbort(a, ev, b)
    [] c = "C16_LazyBuild" -> C16_LazyBuild(a, ev, b)
    [] c = "C16_LazySource" -> C16_LazySource(a, ev, b)
    [] c = "C16_LazyUntilTerminal" -> C16_LazyUntilTerminal(a, ev, b)
    [] c = "C16_TerminalParams" -> C16_TerminalParams(a, ev, b)

\* the clauses this run of TLC is asked to judge: a one-line JSON file {"clauses":[...]}
MonCfg == ndJsonDeserialize(IOEnv.MONCFG)[1]
Selected == {MonCfg.clauses[i] : i \in DOMAIN MonCfg.clauses} \cap Clauses

\* what the site of a C16 violation is: the (type before, transformation) pair
Detail(c, a, ev) ==
  IF c = "C16_LazyBuild" THEN <<a.ty, ev.k>>
  ELSE IF c = "C08_ReduceOpThreads"
       THEN <<"reduce-operator-on-caller",
              a.cthr \in (Get(a.tids, 98, {}) \cup Get(a.tids, KeyStage, {}) \cup {ev.t})>>
  ELSE IF c \in {"C15_NoPanic", "C15_SameAsSequential", "C15_NoAbort"}
       THEN <<a.p.src, a.p.term.k, FinalParams(a.p).ck,
              IF FinalParams(a.p).csv >= BigVal THEN "huge-chunk" ELSE "chunk-ok">>
  ELSE <<a.p.src, a.p.term.k>>

(***************************************************************************)
(* The (deterministic, never blocking) trace machine.                      *)
(***************************************************************************)
Init == l = 1 /\ m = Fresh

Consume ==
  /\ l <= Len(Rec)
  /\ LET ev == Rec[l]
         a == m
         b == IF ev.e = "prog" THEN [InitRun(ev) EXCEPT !.nviol = a.nviol, !.nruns = a.nruns + 1,
                                                         !.nchecked = a.nchecked]
              ELSE IF a.hasprog THEN After(a, ev) ELSE a
         bad == IF ev.e = "prog" \/ ~a.hasprog THEN {}
                ELSE {c \in Selected : ~Holds(c, a, ev, b)}
     \* (one string per violation: TLC wraps long tuples over several lines, strings never)
     IN  /\ \A c \in bad : PrintT("VIOL|" \o c \o "|" \o ToString(a.run) \o "|" \o ToString(ev.i) \o "|"
                                    \o ToString(Detail(c, a, ev)))
         /\ m' = [b EXCEPT !.nviol = @ + Cardinality(bad)]
  /\ l' = l + 1

Finish ==
  /\ l = Len(Rec) + 1
  /\ PrintT(<<"TRACE-CONSUMED", Len(Rec), m.nruns, m.nchecked, m.nviol>>)
  /\ l' = l + 1
  /\ m' = m

Next == Consume \/ Finish
Spec == Init /\ [][Next]_vars
=============================================================================
