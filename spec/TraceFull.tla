----------------------------- MODULE TraceFull -----------------------------
(***************************************************************************)
(* Strict conformance: is a trace recorded from the real library (under    *)
(* the deterministic scheduler, so that the log is the linearisation) a    *)
(* behaviour of ParRun?  Every event is bound to the ParRun action it      *)
(* witnesses, with its logged fields bound to the action's variables.      *)
(*                                                                         *)
(* This pass never raises an alarm: a refactoring that keeps every listed  *)
(* property may legitimately stop conforming (say, another lag period).    *)
(* A run whose next event matches no action is reported as                 *)
(*   <<"REJECT", run, line, event>>  and skipped; a run consumed to its    *)
(* end is reported as <<"CONFORMS", run>>.  The numbers go to the          *)
(* evidence and drive spec maintenance.                                    *)
(***************************************************************************)
EXTENDS ParRun, Json, IOUtils

Rec == ndJsonDeserialize(IOEnv.TRACE)

VARIABLES l,       \* next line of the trace
          tf       \* [active, run, ok, rej]

tvars == <<vars, l, tf>>

Ev == Rec[l]
IsEv(e) == l <= Len(Rec) /\ Rec[l].e = e
Step1 == l' = l + 1

SupportedTerms == CollectTerms \cup FindTerms \cup {"collect_x", "count", "for_each", "reduce", "sum", "fold", "min", "max"}

\* programs whose runs this pass tracks
Applicable(ev) ==
  /\ ev.mode \in {"rand", "replay", "free"}   \* ("hold" runs park a worker inside next(): not a linearisation of whole pulls)
  /\ ~IsBig(ev.p)
  /\ ev.p.src \in {"vec", "slice", "range", "iter", "iterx", "deque", "list", "btree", "dequeref", "btreeref",
                  "hashset", "hashsetref", "heap", "heapref", "listref"}
  /\ (ev.p.cs < 0 \/ (ev.p.cs >= 1 /\ ev.p.cs <= Len(Stages(ev.p))) \/ ev.p.cs = TermStage)
  /\ ev.p.term.k \in SupportedTerms
  /\ (Len(Stages(ev.p)) > 0 \/ TermHasClosure(ev.p))
  /\ FinalParams(ev.p).csv < 1000000 /\ FinalParams(ev.p).ntv < 1000000
  /\ CalcNumThreads(IF LenKnown(ev.p.src) THEN Len(ev.p.input) ELSE -1,
                    FinalParams(ev.p).nt, FinalParams(ev.p).ntv, Avail) <= MaxW
  \* free-running programs only when every group is sequential: one thread, so the trace is the order
  \* (evaluated last: InitState is defined for supported programs only)
  /\ \/ ev.mode \in {"rand", "replay"}
     \/ \A i \in 1..Len(Groups(ev.p)) : InitState(Groups(ev.p)[i]).rc.kernel = "seq"

\* (skipping to the next program is done one line per step: a recursion over tens of thousands of
\*  lines is very slow in TLC)

Idle == [active |-> FALSE, run |-> 0, gs |-> <<>>, g |-> 0, sq |-> 0]

TInit ==
  /\ l = 1
  /\ tf = Idle
  /\ InitFor([src |-> "vec", input |-> <<>>, ops |-> <<>>,
              term |-> [k |-> "count", t |-> <<>>, op |-> "", tk |-> "", pre |-> <<>>, cap |-> 0],
              cs |-> -1, ck |-> 0])

(***************************************************************************)
(* Events bound to actions.                                                *)
(***************************************************************************)
TProg ==
  /\ IsEv("prog")
  /\ IF Applicable(Ev)
     THEN /\ LET s == InitState(Groups(Ev.p)[1])
             IN  /\ prog' = s.prog /\ pe' = s.pe /\ rc' = s.rc /\ counter' = s.counter /\ gate' = s.gate
                 /\ sp' = s.sp /\ wk' = s.wk /\ bag' = s.bag /\ result' = s.result /\ mon' = s.mon
          /\ tf' = [active |-> TRUE, run |-> Ev.run, gs |-> Groups(Ev.p), g |-> 1, sq |-> 0]
          /\ Step1
     ELSE /\ UNCHANGED vars
          /\ tf' = Idle
          /\ Step1

\* the run of the current group is complete and the next event belongs to the next group: the
\* materialised result becomes the source of the rest of the chain (no event is consumed)
GroupComplete == \/ sp.pc = "seq"
                 \/ sp.pc = "join" /\ AllDone /\ ~SomePanicked
TNextGroup ==
  /\ l <= Len(Rec)
  /\ tf.g < Len(tf.gs)
  /\ GroupComplete
  /\ \/ Ev.e = "run_begin"
     \/ Ev.e \in {"call", "te"} /\ InitState(tf.gs[tf.g + 1]).rc.kernel = "seq"
  /\ LET s == InitState(tf.gs[tf.g + 1])
     IN  /\ prog' = s.prog /\ pe' = s.pe /\ rc' = s.rc /\ counter' = s.counter /\ gate' = s.gate
         /\ sp' = s.sp /\ wk' = s.wk /\ bag' = s.bag /\ result' = s.result /\ mon' = s.mon
  /\ (rc.kernel = "seq" => tf.sq = Len(CallsOf(pe)))       \* a sequential group has made all its calls
  /\ tf' = [tf EXCEPT !.g = @ + 1, !.sq = 0]
  /\ UNCHANGED l

\* events that do not change the protocol state
TStutter ==
  /\ l <= Len(Rec)
  /\ Ev.e \in {"op", "par", "built", "tb", "nx", "red", "tok"}
  /\ Step1
  /\ UNCHANGED <<vars, tf>>

\* what the runner resolved must be what Settings computes
TRunBegin ==
  /\ IsEv("run_begin")
  /\ Ev.max = rc.maxT /\ Ev.chunk = rc.c0 /\ (Ev.exact = 1) = rc.exact /\ Ev.task = rc.task
  /\ Ev.len = rc.len
  /\ sp.pc = "decide" /\ sp.spawned = 0
  /\ Step1 /\ UNCHANGED <<vars, tf>>

TPreDecide ==
  /\ IsEv("pre_decide")
  /\ Ev.n = sp.spawned
  /\ \/ sp.pc = "decide" /\ UNCHANGED vars
     \/ SChunkContinue
  /\ Step1 /\ UNCHANGED tf

TPreChunk ==
  /\ IsEv("pre_chunk")
  /\ Ev.n = sp.spawned /\ sp.pc = "chunk"
  /\ Step1 /\ UNCHANGED <<vars, tf>>

TWBegin ==
  /\ IsEv("wbegin")
  /\ Ev.a = sp.spawned + 1 /\ Ev.c = sp.chunk
  /\ SDecideSpawn \/ SDecideStop \/ SChunkStop
  /\ Step1 /\ UNCHANGED tf

TBeforeJoin ==
  /\ IsEv("before_join")
  /\ Ev.n = sp.spawned /\ sp.pc = "join"
  /\ Step1 /\ UNCHANGED <<vars, tf>>

\* the entry of the first closure of source position k on worker a: the step that makes a hold k
TFirstCall ==
  /\ IsEv("call")
  /\ Ev.a >= 1 /\ Ev.a <= MaxW /\ Ev.s = FirstStage(prog)
  /\ WStart(Ev.a) \/ WStep(Ev.a)
  /\ wk'[Ev.a].pc = "hold" /\ SrcElems(prog)[wk'[Ev.a].cur + 1].k = Ev.k
  /\ Step1 /\ UNCHANGED tf

\* any other closure call must be one the element being evaluated makes
TOtherCall ==
  /\ IsEv("call")
  /\ ~(Ev.a >= 1 /\ Ev.s = FirstStage(prog))
  /\ rc.kernel # "seq" \/ Ev.s = KeyStage
  \* (a call of the calling thread after a materialising run has finished belongs to the next,
  \*  sequential, group: TNextGroup must be taken first)
  /\ ~(Ev.a = 0 /\ Ev.s # KeyStage /\ tf.g < Len(tf.gs) /\ GroupComplete)
  /\ \/ Ev.a = 0
     \/ Ev.s = KeyStage
     \/ /\ Ev.a >= 1 /\ Ev.a <= MaxW /\ wk[Ev.a].pc = "hold"
        /\ \E i \in 1..Len(pe[wk[Ev.a].cur + 1].calls) : pe[wk[Ev.a].cur + 1].calls[i] = <<Ev.s, Ev.k, Ev.v>>
  /\ Step1 /\ UNCHANGED <<vars, tf>>

\* sequential mode (the `seq` kernel): the calling thread makes exactly the calls of the std::iter
\* chain, depth first and lazily, in that order (a find-like terminal makes a prefix of them)
TSeqCall ==
  /\ IsEv("call")
  /\ rc.kernel = "seq" /\ Ev.s # KeyStage /\ Ev.a = 0
  /\ tf.sq < Len(CallsOf(pe))
  /\ CallsOf(pe)[tf.sq + 1] = <<Ev.s, Ev.k, Ev.v>>
  /\ Step1
  /\ tf' = [tf EXCEPT !.sq = @ + 1]
  /\ UNCHANGED vars

TWEnd ==
  /\ IsEv("wend")
  /\ Ev.p = 0 /\ Ev.a >= 1 /\ Ev.a <= MaxW
  /\ WStart(Ev.a) \/ WStep(Ev.a)
  /\ wk'[Ev.a].pc = "done"
  /\ Step1 /\ UNCHANGED tf

\* a worker ends while unwinding: the closure call it was about to make panicked
TWPanic ==
  /\ IsEv("wend")
  /\ Ev.p = 1 /\ Ev.a >= 1 /\ Ev.a <= MaxW
  /\ WPanic(Ev.a)
  /\ Step1 /\ UNCHANGED tf

TTePanic ==
  /\ IsEv("te")
  /\ Ev.kind = "panic"
  /\ SJoin \/ SSeqPanic
  /\ result'[1] = "panic"
  /\ Step1 /\ UNCHANGED tf

EvPairs == [i \in 1..Len(Ev.rk) |-> <<Ev.rk[i], Ev.rv[i]>>]
PrefixOfTerm == IF prog.term.k = "collect_into"
                THEN [i \in 1..Len(prog.term.pre) |-> <<1000000 + (i - 1), prog.term.pre[i]>>] ELSE <<>>

\* the terminal returns exactly what the model's combine step computes for this schedule
ResultAgrees(r) ==
  LET k == prog.term.k
  IN  CASE k \in CollectTerms \cup {"collect_x"} -> Ev.kind = "col" /\ EvPairs = PrefixOfTerm \o Pairs(r)
        [] k = "count" -> Ev.kind = "cnt" /\ Ev.n = r
        [] k = "for_each" -> Ev.kind = "unit"
        [] k \in {"find", "first", "find_idx", "first_idx"} ->
             IF r = <<>> THEN Ev.found = 0
             ELSE Ev.found = 1 /\ Ev.rk[1] = r[2].k /\ Ev.rv[1] = r[2].v
                  /\ (k \in {"find_idx", "first_idx"} => Ev.idx = r[1])
        [] k = "any" -> (Ev.b = 1) = (r # <<>>)
        [] k = "all" -> (Ev.b = 1) = (r = <<>>)
        [] k \in ReduceTerms ->
             IF r = <<>> THEN (Ev.found = 0 \/ k \in {"fold", "sum"})
             ELSE Ev.found = 1
                  /\ (OpOfTerm(prog) \in {"add", "xor", "min", "max"} \/ rc.kernel = "seq" => Ev.rv[1] = LeftFold(OpOfTerm(prog), Vals(r)))
        [] OTHER -> TRUE

TTe ==
  /\ IsEv("te")
  /\ tf.g = Len(tf.gs)
  /\ Ev.kind # "panic"
  /\ (rc.kernel = "seq" /\ prog.term.k \in FullTerms) => tf.sq = Len(CallsOf(pe))
  /\ SJoin \/ SSeq
  /\ result'[1] = "ok" /\ ResultAgrees(result'[2])
  /\ Step1 /\ UNCHANGED tf

TEnd ==
  /\ IsEv("end")
  /\ Done
  /\ Ev.dstep = -1
  /\ PrintT(<<"CONFORMS", tf.run>>)
  /\ Step1
  /\ tf' = Idle
  /\ UNCHANGED vars

Strict ==
  /\ tf.active
  /\ \/ TNextGroup \/ TStutter \/ TRunBegin \/ TPreDecide \/ TPreChunk \/ TWBegin \/ TBeforeJoin
     \/ TFirstCall \/ TOtherCall \/ TSeqCall \/ TWEnd \/ TWPanic \/ TTe \/ TTePanic \/ TEnd

Reject ==
  /\ tf.active
  /\ l <= Len(Rec)
  /\ ~ENABLED Strict
  /\ PrintT(<<"REJECT", tf.run, Ev.i, Ev.e>>)
  /\ l' = IF Ev.e = "prog" THEN l ELSE l + 1
  /\ tf' = Idle
  /\ UNCHANGED vars

SkipIdle ==
  /\ ~tf.active
  /\ l <= Len(Rec)
  /\ ~IsEv("prog")
  /\ Step1
  /\ UNCHANGED <<vars, tf>>

Finish ==
  /\ l = Len(Rec) + 1
  /\ PrintT(<<"FULL-CONSUMED", Len(Rec)>>)
  /\ l' = l + 1
  /\ UNCHANGED <<vars, tf>>

TNext == (~tf.active /\ TProg) \/ Strict \/ Reject \/ SkipIdle \/ Finish
TSpec == TInit /\ [][TNext]_tvars
=============================================================================
