------------------------------ MODULE SpawnLoop ------------------------------
(***************************************************************************)
(* The spawn loop of runner.rs on its own, over unbounded integers: the     *)
(* spawning thread, the number of workers it has spawned and the position   *)
(* inside the lag period. What the source reports (has_more) is arbitrary   *)
(* at every decision - any interleaving with the workers is covered.        *)
(* IndInv is inductive, so ThreadBound holds for EVERY max_num_threads >= 1 *)
(* (checked by Apalache: Init => IndInv, IndInv /\ Next => IndInv').         *)
(***************************************************************************)
EXTENDS Integers

CONSTANT
  \* @type: Int;
  MaxT

VARIABLES
  \* @type: Str;
  pc,
  \* @type: Int;
  spawned,
  \* @type: Int;
  k

ConstInit == MaxT \in Int /\ MaxT >= 1

Init == pc = "decide" /\ spawned = 0 /\ k = 0

\* do_spawn: refuses once max-1 workers exist (or when the source says No: hm = FALSE)
Decide ==
  /\ pc = "decide"
  /\ \E hm \in BOOLEAN :
       IF spawned < MaxT - 1 /\ hm
       THEN /\ spawned' = spawned + 1
            /\ k' = IF k + 1 = 4 THEN 0 ELSE k + 1
            /\ pc' = IF k + 1 = 4 THEN "chunk" ELSE "decide"
       ELSE /\ spawned' = spawned + 1          \* the final, unconditional spawn
            /\ pc' = "join"
            /\ k' = k

\* next_chunk_size: None (leave the loop, final spawn) or Some(c) (next lag period)
Chunk ==
  /\ pc = "chunk"
  /\ \E hm \in BOOLEAN :
       IF hm /\ spawned < MaxT - 1
       THEN pc' = "decide" /\ UNCHANGED <<spawned, k>>
       ELSE pc' = "join" /\ spawned' = spawned + 1 /\ k' = k

Stutter == pc = "join" /\ UNCHANGED <<pc, spawned, k>>

Next == Decide \/ Chunk \/ Stutter

\* C08: never more than max_num_threads workers
ThreadBound == spawned <= MaxT

IndInv ==
  /\ pc \in {"decide", "chunk", "join"}
  /\ k \in 0..3
  /\ spawned \in Int
  /\ spawned >= 0
  /\ pc \in {"decide", "chunk"} => spawned <= MaxT - 1
  /\ pc = "join" => spawned <= MaxT /\ spawned >= 1
=============================================================================
