----------------------------- MODULE MC_ParRun -----------------------------
(***************************************************************************)
(* Bounded instances of ParRun for TLC.  The initial state ranges over a   *)
(* family of programs: every source class, terminal, thread bound and      *)
(* chunk size of the configuration, and EVERY survive / fan-out / match    *)
(* pattern over NN source elements (element i has value i, one flat_map    *)
(* stage maps it to any of the sequences in Fans; value 1 is what find     *)
(* looks for).  TLC then explores every interleaving of the spawning       *)
(* thread and the workers.                                                 *)
(***************************************************************************)
EXTENDS ParRun

CONSTANTS NN,        \* number of source elements
          Srcs,      \* subset of {"vec", "iter", "iterx"}
          Terms,     \* terminal kinds
          Nts,       \* values of num_threads (0 = Auto)
          Css,       \* chunk settings: <<"cs" | "csmin", value>> (value 0 = Auto)
          Fans,      \* what one element may produce
          Crashes,   \* crash points <<stage, key>>; <<-1, 0>> = no closure panics
          Kinds      \* what the single stage is: subset of {"flat", "fmap", "filter"} (selects the kernel family)

\* named alternatives for the configuration files (a .cfg cannot spell tuples)
Cs_1_2 == {<<"cs", 1>>, <<"cs", 2>>}
Cs_1_2_3 == {<<"cs", 1>>, <<"cs", 2>>, <<"cs", 3>>}
Cs_2 == {<<"cs", 2>>}
Cs_min_auto == {<<"csmin", 1>>, <<"csmin", 2>>, <<"cs", 0>>}
Cs_all == {<<"cs", 1>>, <<"cs", 2>>, <<"cs", 3>>, <<"csmin", 1>>, <<"csmin", 2>>, <<"cs", 0>>}
Fans_012 == {<<>>, <<0>>, <<0, 1>>}
Fans_find == {<<>>, <<0>>, <<1>>, <<0, 1>>}
Fans_1 == {<<0>>}
Fans_01 == {<<>>, <<0>>, <<1>>}
Fans_0x == {<<>>, <<0>>}          \* survive or not
Fans_m == {<<0>>, <<1>>}          \* match or not
NoCrash == {<<-1, 0>>}
\* the first closure panics on source position 0, 1, 2 or 3
CrashStage1 == {<<1, 0>>, <<1, 1>>, <<1, 2>>, <<1, 3>>}

IdInput == [i \in 1..NN |-> i - 1]

\* the stage of kind `kind` that realises the survive / fan-out pattern tt:
\*   flat   : element i produces tt[i]                      (flat_map kernels)
\*   fmap   : element i is dropped if tt[i] = <<>>, else mapped to the first value of tt[i]  (filter_map kernels)
\*   filter : element i is dropped if tt[i] = <<>>, else kept as it is (map+filter kernels)
StageOf(kind, tt) ==
  CASE kind = "flat" -> [k |-> "flat", t |-> <<>>, tt |-> tt, v |-> 0, h |-> 0]
    [] kind = "fmap" -> [k |-> "fmap", t |-> [i \in 1..NN |-> IF tt[i] = <<>> THEN -1 ELSE tt[i][1]], tt |-> <<>>, v |-> 0, h |-> 0]
    [] kind = "filter" -> [k |-> "filter", t |-> [i \in 1..NN |-> IF tt[i] = <<>> THEN 0 ELSE 1], tt |-> <<>>, v |-> 0, h |-> 0]

MkProg(src, term, nt, cs, tt, mapOnly, cr, kind) ==
  [src |-> src, input |-> IdInput,
   ops |-> << [k |-> "nt", t |-> <<>>, tt |-> <<>>, v |-> nt, h |-> 0],
              [k |-> cs[1], t |-> <<>>, tt |-> <<>>, v |-> cs[2], h |-> 0],
              IF mapOnly THEN [k |-> "map", t |-> [i \in 1..NN |-> 1], tt |-> <<>>, v |-> 0, h |-> 0]
              ELSE StageOf(kind, tt) >>,
   \* find looks for value 1 (outputs of a filter stage keep the element's own value 0..NN-1)
   term |-> [k |-> term, t |-> [i \in 1..(NN + 1) |-> IF i = 2 THEN 1 ELSE 0], op |-> "add", tk |-> "vec", pre |-> <<>>, cap |-> 0],
   cs |-> cr[1], ck |-> cr[2]]

Tables == [1..NN -> Fans]

Progs == {MkProg(src, term, nt, cs, tt, FALSE, cr, kind) :
             src \in Srcs, term \in Terms, nt \in Nts, cs \in Css, tt \in Tables, cr \in Crashes, kind \in Kinds}
         \cup
         {MkProg(src, term, nt, cs, <<>>, TRUE, cr, "flat") :
             src \in Srcs, term \in Terms \cap {"collect_vec"}, nt \in Nts, cs \in Css, cr \in Crashes}

Init == \E p \in Progs : InitFor(p)
Spec == Init /\ [][Next]_vars /\ WF_vars(Next)

=============================================================================
