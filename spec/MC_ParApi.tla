----------------------------- MODULE MC_ParApi -----------------------------
(***************************************************************************)
(* The builder as a state machine: the eight computation types, the four   *)
(* transformations, num_threads / chunk_size setters and the terminal.     *)
(* Transformations move between types by the table Trans of Pipeline.tla   *)
(* and carry the parameters along; the eager sites of the pinned tree run  *)
(* a complete inner computation (Materialise) at construction time, with   *)
(* the parameters set so far.                                              *)
(*                                                                         *)
(* `hist` is the sequence of operations applied; every reachable state is  *)
(* a chain a user can write, and is printed (Emit) as a replayable job:    *)
(* the harness builds exactly that chain on the real types and the trace   *)
(* monitor compares params() after every step and watches for work done    *)
(* before the terminal.                                                    *)
(***************************************************************************)
EXTENDS Pipeline, Json

CONSTANT Depth          \* maximal number of operations in a chain

VARIABLES ty,           \* computation type
          params,       \* what params() reports
          lastNt, lastCs,  \* ghost: the raw values last passed to the setters (<<kind, v>>), <<>> if never
          eager,        \* ghost: (type, transformation) pairs that ran work at construction time
          matParams,    \* ghost: parameters under which the last materialisation ran
          done,         \* the terminal has been called
          runParams,    \* parameters the terminal ran under
          hist          \* operations applied so far

vars == <<ty, params, lastNt, lastCs, eager, matParams, done, runParams, hist>>

ParamVals == {0, 1, 2, 7, 2000000000}
Op(k, v) == [k |-> k, t |-> <<>>, tt |-> <<>>, v |-> v, h |-> 0]

Init ==
  /\ ty = "Empty" /\ params = DefaultParams /\ lastNt = <<>> /\ lastCs = <<>>
  /\ eager = {} /\ matParams = DefaultParams /\ done = FALSE /\ runParams = DefaultParams /\ hist = <<>>

CanGrow == ~done /\ Len(hist) < Depth

SetNt(v) ==
  /\ CanGrow
  /\ params' = SetParam(params, Op("nt", v))
  /\ lastNt' = <<v>>
  /\ hist' = Append(hist, Op("nt", v))
  /\ UNCHANGED <<ty, lastCs, eager, matParams, done, runParams>>

SetCs(k, v) ==
  /\ CanGrow
  /\ params' = SetParam(params, Op(k, v))
  /\ lastCs' = <<k, v>>
  /\ hist' = Append(hist, Op(k, v))
  /\ UNCHANGED <<ty, lastNt, eager, matParams, done, runParams>>

\* a transformation: composes closures; at an eager site it first materialises (a complete run
\* of the computation built so far, under the current parameters)
Transform(k) ==
  /\ CanGrow
  /\ Len(SelectSeq(hist, IsStage)) < 3
  /\ ty' = Trans(ty, k)[1]
  /\ eager' = IF Trans(ty, k)[2] THEN eager \cup {<<ty, k>>} ELSE eager
  /\ matParams' = IF Trans(ty, k)[2] THEN params ELSE matParams
  /\ hist' = Append(hist, Op(k, 0))
  /\ UNCHANGED <<params, lastNt, lastCs, done, runParams>>

Terminal ==
  /\ ~done
  /\ done' = TRUE
  /\ runParams' = params
  /\ UNCHANGED <<ty, params, lastNt, lastCs, eager, matParams, hist>>

Next ==
  \/ \E v \in ParamVals : SetNt(v)
  \/ \E k \in {"cs", "csmin"}, v \in ParamVals : SetCs(k, v)
  \/ \E k \in StageKinds : Transform(k)
  \/ Terminal

Spec == Init /\ [][Next]_vars

TypeOK == ty \in Types /\ params.nt \in {"auto", "max"} /\ params.ck \in {"auto", "exact", "min"}

\* C12: params() is the last value set (0 converts to Auto, n > 0 to Max(n) / Exact(n) / Min(n)),
\* whatever transformations came in between
ParamsAreLastSet ==
  /\ params.nt = (IF lastNt = <<>> \/ lastNt[1] = 0 THEN "auto" ELSE "max")
  /\ params.ntv = (IF lastNt = <<>> THEN 0 ELSE lastNt[1])
  /\ params.ck = (IF lastCs = <<>> \/ lastCs[2] = 0 THEN "auto" ELSE IF lastCs[1] = "cs" THEN "exact" ELSE "min")
  /\ params.csv = (IF lastCs = <<>> THEN 0 ELSE lastCs[2])
SequentialIffMax1 == IsSequential(params) = (lastNt = <<1>>)

\* C16 on the model of the pinned tree: the only work before the terminal happens at the eight
\* recorded sites (true laziness, eager = {}, fails on this model by exactly those eight)
LazyExceptKnownSites == eager \subseteq EagerSites
TrulyLazy == eager = {}
TerminalUnderCurrentParams == done => runParams = params

Emit == PrintT(<<"API", ToJson([ops |-> hist])>>)
=============================================================================
