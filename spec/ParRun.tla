------------------------------- MODULE ParRun -------------------------------
(***************************************************************************)
(* The execution protocol of one parallel run of orx-parallel:             *)
(* the spawning thread (runner.rs), the workers (the task loops of         *)
(* src/core/*.rs) pulling chunks from a concurrent iterator                *)
(* (orx-concurrent-iter), and the way per-thread results are combined.     *)
(*                                                                         *)
(* Grain: one step = the code between two yield points of the              *)
(* deterministic scheduler of the harness, which contains exactly one      *)
(* shared-memory operation:                                                *)
(*   spawner : from one runner hook (pre_decide / pre_chunk) to the next   *)
(*             (reads has_more once, spawns at most one worker);           *)
(*   worker  : from the entry of the first closure of element e to the     *)
(*             entry of the first closure of the next element (finishes e  *)
(*             thread-locally, then advances inside its chunk, pulls the   *)
(*             next chunk, or publishes early exit) or to its end.         *)
(* Thread-local work commutes with everything, so nothing is lost by the   *)
(* coarse grain; the sub-steps of the turnstile of by-value iterator       *)
(* sources are modelled separately in Source.tla.                          *)
(***************************************************************************)
EXTENDS Pipeline, Settings

CONSTANTS MaxW,      \* bound on worker indices (>= resolved max threads)
          Avail      \* std::thread::available_parallelism()

VARIABLES prog,      \* the program (never changes)
          pe,        \* FullPerElem(prog): per source position, calls and outputs (never changes)
          rc,        \* what the runner resolved for this run
          counter,   \* positions / tickets handed out by the concurrent iterator
          gate,      \* "open" | "done": early exit published / by-value iterator exhausted
          sp,        \* spawning thread
          wk,        \* workers
          bag,       \* ordered bag of the map-only collect: position -> <<>> or <<elem>>
          result,    \* <<>> until the terminal returns, then <<value>>
          mon        \* ghost state used only by properties

vars == <<prog, pe, rc, counter, gate, sp, wk, bag, result, mon>>

N == Len(prog.input)
Indexed == rc.src = "indexed"

(***************************************************************************)
(* Which kernel a (final type, terminal) pair runs, and with which task.   *)
(***************************************************************************)
KernelOf(ty, k) ==
  CASE k \in CollectTerms -> IF ty = "Empty" THEN "seq" ELSE IF ty = "Map" THEN "collect_bag" ELSE "collect_merge"
    [] k = "collect_x" -> IF ty = "Empty" THEN "seq" ELSE "collect_x"
    [] k \in {"count", "for_each"} -> "count"
    [] k \in ReduceTerms -> "reduce"
    [] k \in FindTerms -> "find"

TaskOf(ty, k) ==
  CASE k \in FindTerms -> "EarlyReturn"
    [] k \in ReduceTerms -> "Reduce"
    [] k = "count" -> IF ty \in {"FilterMap", "FilterMapFil"} THEN "Reduce" ELSE "Collect"
    [] k = "for_each" -> IF ty \in {"Fil", "MapFil", "FilterMap", "FilterMapFil"} THEN "Reduce" ELSE "Collect"
    [] OTHER -> "Collect"

SrcClass(s) == IF s \in {"vec", "vecadv", "slice", "range"} THEN "indexed" ELSE "ticketed"
LenKnown(s) == s \in {"vec", "vecadv", "slice", "range", "iter", "deque", "list", "btree", "dequeref", "btreeref",
                     "hashset", "hashsetref", "heap", "heapref", "listref"}

Resolve(p) ==
  LET pr == FinalParams(p)
      ty == FinalType(p)
      len == IF LenKnown(p.src) THEN Len(p.input) ELSE -1
      task == TaskOf(ty, p.term.k)
      T == CalcNumThreads(len, pr.nt, pr.ntv, Avail)
      ch == CalcChunk(task, len, T, pr.ck, pr.csv)
  IN  [kernel |-> IF IsSequential(pr) THEN "seq" ELSE KernelOf(ty, p.term.k),
       task |-> task, src |-> SrcClass(p.src), len |-> len, maxT |-> T, exact |-> ch.exact, c0 |-> ch.c]

(***************************************************************************)
(* The concurrent iterator, at the grain of whole operations.              *)
(***************************************************************************)
\* pull of c elements: [counter, gate, lo, hi] ; lo = hi means "nothing: the worker ends"
PullOf(c) ==
  IF Indexed
  THEN [counter |-> counter + c, gate |-> gate,
        lo |-> Min2(counter, N), hi |-> Min2(counter + c, N)]
  ELSE IF gate = "done"
       THEN [counter |-> counter + c, gate |-> gate, lo |-> 0, hi |-> 0]
       ELSE [counter |-> counter + c, gate |-> IF counter + c > N THEN "done" ELSE gate,
             lo |-> Min2(counter, N), hi |-> Min2(counter + c, N)]

\* skip_to_end
SkipCounter == IF Indexed THEN Max2(counter, N) ELSE counter
SkipGate == IF Indexed THEN gate ELSE "done"

HasMore ==
  IF Indexed THEN (IF counter >= N THEN <<"No", 0>> ELSE <<"Yes", N - counter>>)
  ELSE IF gate = "done" THEN <<"No", 0>>
  ELSE IF rc.len < 0 THEN <<"Maybe", 0>>
  ELSE IF rc.len - counter <= 0 THEN <<"No", 0>> ELSE <<"Yes", rc.len - counter>>

(***************************************************************************)
(* Initial state of a run of program p.                                    *)
(***************************************************************************)
NoWorker == [pc |-> "none", c |-> 0, lo |-> 0, hi |-> 0, cur |-> 0, buf |-> <<>>, cnt |-> 0, found |-> <<>>]

InitState(p) ==
  [prog |-> p,
   pe |-> FullPerElem(p),
   rc |-> Resolve(p),
   counter |-> 0,
   gate |-> "open",
   sp |-> [pc |-> IF Resolve(p).kernel = "seq" THEN "seq" ELSE "decide",
           spawned |-> 0, k |-> 0, chunk |-> Resolve(p).c0],
   wk |-> [w \in 1..MaxW |-> NoWorker],
   bag |-> [i \in 1..Len(p.input) |-> <<>>],
   result |-> <<>>,
   mon |-> [evald |-> [i \in 1..Len(p.input) |-> 0], live |-> 0, maxlive |-> 0,
            skipped |-> FALSE, afterSkip |-> 0, heldAtSkip |-> 0]]

InitFor(p) ==
  LET s == InitState(p)
  IN  /\ prog = s.prog /\ pe = s.pe /\ rc = s.rc /\ counter = s.counter /\ gate = s.gate
      /\ sp = s.sp /\ wk = s.wk /\ bag = s.bag /\ result = s.result /\ mon = s.mon

(***************************************************************************)
(* Spawning thread (runner.rs run / run_map / reduce).                     *)
(***************************************************************************)
SpawnInto(w, c) == [wk EXCEPT ![w] = [NoWorker EXCEPT !.pc = "ready", !.c = c]]
LiveUp == [mon EXCEPT !.live = @ + 1, !.maxlive = Max2(@, mon.live + 1)]

\* pre_decide -> has_more says spawn: one more worker inside the lag period
SDecideSpawn ==
  /\ sp.pc = "decide"
  /\ DoSpawn(sp.spawned, rc.maxT, HasMore)
  /\ wk' = SpawnInto(sp.spawned + 1, sp.chunk)
  /\ sp' = [sp EXCEPT !.spawned = @ + 1, !.k = IF sp.k + 1 = LAG_PERIODICITY THEN 0 ELSE sp.k + 1,
                      !.pc = IF sp.k + 1 = LAG_PERIODICITY THEN "chunk" ELSE "decide"]
  /\ mon' = LiveUp
  /\ UNCHANGED <<prog, pe, rc, counter, gate, bag, result>>

\* pre_decide -> do_spawn refuses: leave the loop, spawn the last worker
SDecideStop ==
  /\ sp.pc = "decide"
  /\ ~DoSpawn(sp.spawned, rc.maxT, HasMore)
  /\ wk' = SpawnInto(sp.spawned + 1, sp.chunk)
  /\ sp' = [sp EXCEPT !.spawned = @ + 1, !.pc = "join"]
  /\ mon' = LiveUp
  /\ UNCHANGED <<prog, pe, rc, counter, gate, bag, result>>

\* pre_chunk (after lag()) -> a chunk size for the next lag period
SChunkContinue ==
  /\ sp.pc = "chunk"
  /\ NextChunk(sp.spawned, rc.maxT, HasMore, rc.exact, rc.c0, rc.len) # 0
  /\ sp' = [sp EXCEPT !.chunk = NextChunk(sp.spawned, rc.maxT, HasMore, rc.exact, rc.c0, rc.len),
                      !.pc = "decide"]
  /\ UNCHANGED <<prog, pe, rc, counter, gate, wk, bag, result, mon>>

\* pre_chunk -> None: leave the loop, spawn the last worker
SChunkStop ==
  /\ sp.pc = "chunk"
  /\ NextChunk(sp.spawned, rc.maxT, HasMore, rc.exact, rc.c0, rc.len) = 0
  /\ wk' = SpawnInto(sp.spawned + 1, sp.chunk)
  /\ sp' = [sp EXCEPT !.spawned = @ + 1, !.pc = "join"]
  /\ mon' = LiveUp
  /\ UNCHANGED <<prog, pe, rc, counter, gate, bag, result>>

(***************************************************************************)
(* Workers.                                                                *)
(***************************************************************************)
IsFind == rc.kernel = "find"
MatchIn(out) == FirstMatch(prog, out)      \* index in `out` of the first wanted element, 0 if none

\* thread-local effect of evaluating source position i (0-based) on worker record r
EvalInto(r, i) ==
  LET out == pe[i + 1].out
  IN  CASE rc.kernel = "collect_merge" ->
             [r EXCEPT !.buf = @ \o [j \in 1..Len(out) |-> <<i, j - 1, out[j]>>]]
        [] rc.kernel \in {"collect_x", "reduce"} ->
             [r EXCEPT !.buf = @ \o out]
        [] rc.kernel = "count" -> [r EXCEPT !.cnt = @ + Len(out)]
        [] rc.kernel = "find" ->
             IF MatchIn(out) # 0 THEN [r EXCEPT !.found = <<i, out[MatchIn(out)]>>] ELSE r
        [] OTHER -> r

Matched(i) == IsFind /\ MatchIn(pe[i + 1].out) # 0

Held(w) == IF wk[w].pc = "hold" THEN wk[w].hi - wk[w].cur ELSE 0     \* elements it holds and has not finished
RECURSIVE SumHeld(_)
SumHeld(S) == IF S = {} THEN 0 ELSE LET w == CHOOSE x \in S : TRUE IN Held(w) + SumHeld(S \ {w})

\* the worker has been spawned and makes its first pull
WStart(w) ==
  /\ wk[w].pc = "ready"
  /\ LET p == PullOf(wk[w].c)
     IN  /\ counter' = p.counter
         /\ gate' = p.gate
         /\ wk' = [wk EXCEPT ![w] = IF p.lo < p.hi
                                    THEN [@ EXCEPT !.pc = "hold", !.lo = p.lo, !.hi = p.hi, !.cur = p.lo]
                                    ELSE [@ EXCEPT !.pc = "done"]]
         /\ mon' = [mon EXCEPT !.live = IF p.lo < p.hi THEN @ ELSE @ - 1]
  /\ UNCHANGED <<prog, pe, rc, sp, bag, result>>

\* does evaluating source position i (0-based) make the call that panics?
CrashAt(i) == prog.cs >= 0 /\ \E j \in 1..Len(pe[i + 1].calls) :
                 pe[i + 1].calls[j][1] = prog.cs /\ pe[i + 1].calls[j][2] = prog.ck

\* a closure panics while worker w evaluates element cur: the worker unwinds and ends; nothing
\* else changes (the others run on, the scope joins everybody, the caller re-raises)
WPanic(w) ==
  /\ wk[w].pc = "hold"
  /\ CrashAt(wk[w].cur)
  /\ wk' = [wk EXCEPT ![w].pc = "panicked"]
  /\ mon' = [mon EXCEPT !.live = @ - 1]
  /\ UNCHANGED <<prog, pe, rc, counter, gate, sp, bag, result>>

\* the worker finishes element cur and moves on
WStep(w) ==
  /\ wk[w].pc = "hold"
  /\ ~CrashAt(wk[w].cur)
  /\ LET i == wk[w].cur
         r == EvalInto(wk[w], i)
         ev == [mon EXCEPT !.evald[i + 1] = @ + 1,
                           !.afterSkip = IF mon.skipped THEN @ + 1 ELSE @]
     IN  /\ bag' = IF rc.kernel = "collect_bag" THEN [bag EXCEPT ![i + 1] = pe[i + 1].out] ELSE bag
         /\ IF Matched(i)
            THEN \* publish early exit, then end
                 /\ counter' = SkipCounter
                 /\ gate' = SkipGate
                 /\ wk' = [wk EXCEPT ![w] = [r EXCEPT !.pc = "done"]]
                 /\ mon' = [ev EXCEPT !.live = @ - 1,
                                      !.skipped = TRUE,
                                      !.heldAtSkip = IF mon.skipped THEN @ ELSE SumHeld((1..MaxW) \ {w})]
            ELSE IF i + 1 < wk[w].hi
            THEN \* next element of the chunk it holds
                 /\ wk' = [wk EXCEPT ![w] = [r EXCEPT !.cur = i + 1]]
                 /\ mon' = ev
                 /\ UNCHANGED <<counter, gate>>
            ELSE \* chunk exhausted: pull
                 LET p == PullOf(wk[w].c)
                 IN  /\ counter' = p.counter
                     /\ gate' = p.gate
                     /\ wk' = [wk EXCEPT ![w] = IF p.lo < p.hi
                                                THEN [r EXCEPT !.lo = p.lo, !.hi = p.hi, !.cur = p.lo]
                                                ELSE [r EXCEPT !.pc = "done"]]
                     /\ mon' = [ev EXCEPT !.live = IF p.lo < p.hi THEN @ ELSE @ - 1]
  /\ UNCHANGED <<prog, pe, rc, sp, result>>

(***************************************************************************)
(* Join and combine (on the calling thread).                               *)
(***************************************************************************)
Spawned == 1..sp.spawned
AllDone == \A w \in Spawned : wk[w].pc \in {"done", "panicked"}
SomePanicked == \E w \in Spawned : wk[w].pc = "panicked"

KeyLess(a, b) == a[1] < b[1] \/ (a[1] = b[1] /\ a[2] < b[2])
RECURSIVE KMerge(_)
\* k-way merge by smallest head key (heap_sort_into_vec)
KMerge(bufs) ==
  LET ne == {w \in DOMAIN bufs : bufs[w] # <<>>}
  IN  IF ne = {} THEN <<>>
      ELSE LET w == CHOOSE x \in ne : \A y \in ne : x = y \/ ~KeyLess(Head(bufs[y]), Head(bufs[x]))
           IN  <<Head(bufs[w])[3]>> \o KMerge([bufs EXCEPT ![w] = Tail(@)])

RECURSIVE ConcatBufs(_, _)
ConcatBufs(i, n) == IF i > n THEN <<>> ELSE wk[i].buf \o ConcatBufs(i + 1, n)
RECURSIVE SumCnt(_, _)
SumCnt(i, n) == IF i > n THEN 0 ELSE wk[i].cnt + SumCnt(i + 1, n)

\* min-by-index over the workers' finds, in spawn order (ties keep the earlier one)
RECURSIVE BestFound(_, _, _)
BestFound(i, n, best) ==
  IF i > n THEN best
  ELSE LET f == wk[i].found
       IN  BestFound(i + 1, n, IF f = <<>> THEN best
                               ELSE IF best = <<>> THEN f
                               ELSE IF f[1] < best[1] THEN f ELSE best)

BagFull == \A i \in 1..N : Len(bag[i]) = 1

Combined ==
  CASE rc.kernel = "collect_bag" -> [i \in 1..N |-> bag[i][1]]
    [] rc.kernel = "collect_merge" -> KMerge([w \in Spawned |-> wk[w].buf])
    [] rc.kernel \in {"collect_x", "reduce"} -> ConcatBufs(1, sp.spawned)
    [] rc.kernel = "count" -> SumCnt(1, sp.spawned)
    [] rc.kernel = "find" -> BestFound(1, sp.spawned, <<>>)

SJoin ==
  /\ sp.pc = "join"
  /\ AllDone
  /\ (rc.kernel = "collect_bag" /\ ~SomePanicked) => BagFull          \* unwrap_only_if_counts_match
  /\ result' = IF SomePanicked THEN <<"panic", 0>> ELSE <<"ok", Combined>>
  /\ sp' = [sp EXCEPT !.pc = "done"]
  /\ UNCHANGED <<prog, pe, rc, counter, gate, wk, bag, mon>>

\* sequential mode: the whole computation on the calling thread, in std::iter order
SeqValue ==
  LET out == OutOf(pe)
      k == prog.term.k
  IN  CASE k \in CollectTerms \cup {"collect_x"} \cup ReduceTerms -> out
        [] k \in {"count", "for_each"} -> Len(out)
        [] k \in FindTerms -> IF FirstMatch(prog, out) = 0 THEN <<>>
                              ELSE <<RootOf(prog, out[FirstMatch(prog, out)].k), out[FirstMatch(prog, out)]>>

\* a panicking closure in sequential mode: the std::iter chain reaches the call that panics unless
\* a find-like terminal returns at an earlier element (same element: the order of the two inside
\* the element decides, which this model leaves open)
SeqCrash == {i \in 0..(N - 1) : CrashAt(i)}
SeqMatch == {i \in 0..(N - 1) : prog.term.k \in FindTerms /\ MatchIn(pe[i + 1].out) # 0}
SeqMayPanic == \E c \in SeqCrash : \A m \in SeqMatch : c <= m
SeqMustPanic == \E c \in SeqCrash : \A m \in SeqMatch : c < m

SSeq ==
  /\ sp.pc = "seq"
  /\ ~SeqMustPanic
  /\ result' = <<"ok", SeqValue>>
  /\ sp' = [sp EXCEPT !.pc = "done"]
  /\ UNCHANGED <<prog, pe, rc, counter, gate, wk, bag, mon>>

SSeqPanic ==
  /\ sp.pc = "seq"
  /\ SeqMayPanic
  /\ result' = <<"panic", 0>>
  /\ sp' = [sp EXCEPT !.pc = "done"]
  /\ UNCHANGED <<prog, pe, rc, counter, gate, wk, bag, mon>>

Done == sp.pc = "done"

Next ==
  \/ SDecideSpawn \/ SDecideStop \/ SChunkContinue \/ SChunkStop \/ SJoin \/ SSeq \/ SSeqPanic
  \/ \E w \in 1..MaxW : WStart(w) \/ WStep(w) \/ WPanic(w)

(***************************************************************************)
(* Properties of the protocol (checked by TLC on bounded instances).       *)
(***************************************************************************)
Out == OutOf(pe)
IsFull == prog.term.k \in FullTerms

\* C01 / C06: ordered collection is the sequential output
P_OrderedCollect ==
  Done /\ ~SomePanicked /\ rc.kernel \in {"collect_bag", "collect_merge"} => result[2] = Out
\* C07 / C03: unordered collection and (free) reduction are permutations of the sequential output
P_Permutation ==
  Done /\ ~SomePanicked /\ rc.kernel \in {"collect_x", "reduce"} => BagEq(BagOfSeq(result[2]), BagOfSeq(Out))
\* C04
P_Count == Done /\ ~SomePanicked /\ rc.kernel = "count" => result[2] = Len(Out)
\* C02: the match with the smallest source position, with that position
P_FirstMatch ==
  Done /\ ~SomePanicked /\ rc.kernel = "find" =>
     IF FirstMatch(prog, Out) = 0 THEN result[2] = <<>>
     ELSE result[2] = <<RootOf(prog, Out[FirstMatch(prog, Out)].k), Out[FirstMatch(prog, Out)]>>
\* C09: sequential mode is the sequential value (and no worker exists)
P_Sequential == Done /\ rc.kernel = "seq" => result[2] = SeqValue /\ sp.spawned = 0
\* C05: nothing is evaluated twice; full terminals evaluate everything exactly once
P_AtMostOnce == \A i \in 1..N : mon.evald[i] <= 1
P_ExactlyOnce == Done /\ ~SomePanicked /\ IsFull /\ rc.kernel # "seq" => \A i \in 1..N : mon.evald[i] = 1
\* merge precondition: every per-thread buffer is strictly increasing in its key
P_BuffersSorted ==
  rc.kernel = "collect_merge" =>
     \A w \in 1..MaxW : \A a, b \in 1..Len(wk[w].buf) : a < b => KeyLess(wk[w].buf[a], wk[w].buf[b])
\* C08: never more workers than the resolved maximum, which never exceeds Max(n)
P_ThreadBound ==
  /\ sp.spawned <= rc.maxT
  /\ mon.maxlive <= rc.maxT
  /\ FinalParams(prog).nt = "max" => rc.maxT <= FinalParams(prog).ntv
\* C10: after early exit has been published only elements already held are evaluated
P_BoundedAfterSkip == mon.afterSkip <= mon.heldAtSkip
\* C11: with Exact(c) every worker pulls with c, and every chunk held is an aligned block of c
\* elements (shorter only when it reaches the end of the source)
Holding(w) == wk[w].pc = "hold"
P_ExactPulls ==
  rc.exact =>
     /\ \A w \in Spawned : wk[w].c = rc.c0
     /\ \A w \in Spawned : Holding(w) =>
            wk[w].lo % rc.c0 = 0 /\ (wk[w].hi - wk[w].lo = rc.c0 \/ wk[w].hi = N)
\* chunks held at the same time never overlap
P_DisjointPulls ==
  \A v, w \in Spawned : v # w /\ Holding(v) /\ Holding(w) => wk[v].hi <= wk[w].lo \/ wk[w].hi <= wk[v].lo
\* C14: a panicking closure makes the call panic (it never returns a value), and the run still ends
P_PanicPropagates ==
  Done => IF rc.kernel = "seq"
          THEN (SeqMustPanic => result[1] = "panic") /\ (result[1] = "panic" => SeqMayPanic)
          ELSE (SomePanicked <=> result[1] = "panic")
\* the run always finishes
P_Terminates == <>Done

TypeOK ==
  /\ counter \in Nat
  /\ gate \in {"open", "done"}
  /\ sp.pc \in {"decide", "chunk", "join", "seq", "done"}
  /\ \A w \in 1..MaxW : wk[w].pc \in {"none", "ready", "hold", "done", "panicked"}
=============================================================================
