------------------------------ MODULE MC_Merge ------------------------------
(***************************************************************************)
(* heap_sort_into_vec / heap_sort_into_pinned_vec of src/core/map_fil_col.rs, *)
(* transcribed statement by statement: the k-way merge of the per-thread   *)
(* vectors of (key, value) pairs with a binary heap of (vector, key of its *)
(* current head), reading every pair out of its vector by pointer exactly  *)
(* once (ptr.add(idx).read()) and finally set_len(0) on every vector so    *)
(* that the pairs are not dropped a second time.                           *)
(*                                                                         *)
(* The vectors range over ALL ways of distributing the keys 1..NK over NV   *)
(* workers with every vector increasing (what ParRun's P_BuffersSorted      *)
(* guarantees), including empty vectors.                                   *)
(* Checked: the output is sorted and complete (C01), every pair is read    *)
(* exactly once and nothing is left to be dropped by the vectors (C13).    *)
(***************************************************************************)
EXTENDS Naturals, Sequences, FiniteSets

CONSTANTS NK,     \* keys 1..NK, each held by exactly one vector
          NV      \* vectors (workers)

VARIABLES vectors,   \* v -> increasing sequence of keys (the values ride along)
          indices,   \* v -> position of the current head (0-based, as in the code)
          queue,     \* the heap: set of <<v, key>>
          curr,      \* curr_v: 0 for None
          output,    \* keys pushed to the output
          reads,     \* <<v, idx>> -> how often ptr.add(idx).read() was done
          lens,      \* v -> length the vector believes it has (set_len)
          pc

vars == <<vectors, indices, queue, curr, output, reads, lens, pc>>
Vs == 1..NV

\* every assignment of keys to vectors; each vector holds its keys in increasing order
RECURSIVE SeqOfSet(_)
SeqOfSet(S) == IF S = {} THEN <<>>
               ELSE LET m == CHOOSE x \in S : \A y \in S : x <= y IN <<m>> \o SeqOfSet(S \ {m})
Assignments == [1..NK -> Vs]
VecOf(f, v) == SeqOfSet({k \in 1..NK : f[k] = v})

MinNode(q) == CHOOSE n \in q : \A o \in q : n[2] <= o[2]

Init ==
  /\ \E f \in Assignments : vectors = [v \in Vs |-> VecOf(f, v)]
  /\ indices = [v \in Vs |-> 0]
  /\ queue = {} /\ curr = 0 /\ output = <<>> /\ reads = << >>
  /\ lens = [v \in Vs |-> 0]
  /\ pc = "fill"

\* for (v, vec) in vectors: if let Some(x) = vec.get(indices[v]) { queue.push(v, x.0) }; curr_v = queue.pop_node()
Fill ==
  /\ pc = "fill"
  /\ lens' = [v \in Vs |-> Len(vectors[v])]
  /\ LET q == {<<v, vectors[v][1]>> : v \in {w \in Vs : vectors[w] # <<>>}}
     IN  IF q = {} THEN curr' = 0 /\ queue' = {}
         ELSE curr' = MinNode(q)[1] /\ queue' = q \ {MinNode(q)}
  /\ pc' = "loop"
  /\ UNCHANGED <<vectors, indices, output, reads>>

\* one iteration of `while let Some(v) = curr_v`
Loop ==
  /\ pc = "loop" /\ curr # 0
  /\ LET v == curr
         idx == indices[v]
         nidx == idx + 1
     IN  /\ indices' = [indices EXCEPT ![v] = nidx]
         /\ IF nidx < Len(vectors[v])
            THEN \* queue.push_then_pop(v, x.0).0
                 LET q == queue \cup {<<v, vectors[v][nidx + 1]>>}
                 IN  curr' = MinNode(q)[1] /\ queue' = q \ {MinNode(q)}
            ELSE \* queue.pop_node()
                 IF queue = {} THEN curr' = 0 /\ queue' = {}
                 ELSE curr' = MinNode(queue)[1] /\ queue' = queue \ {MinNode(queue)}
         /\ output' = Append(output, vectors[v][idx + 1])
         /\ reads' = IF <<v, idx>> \in DOMAIN reads THEN [reads EXCEPT ![<<v, idx>>] = @ + 1]
                     ELSE [x \in DOMAIN reads \cup {<<v, idx>>} |-> IF x = <<v, idx>> THEN 1 ELSE reads[x]]
  /\ UNCHANGED <<vectors, lens, pc>>

\* for vec in vectors.iter_mut() { vec.set_len(0) }
Finish ==
  /\ pc = "loop" /\ curr = 0
  /\ lens' = [v \in Vs |-> 0]
  /\ pc' = "done"
  /\ UNCHANGED <<vectors, indices, queue, curr, output, reads>>

Next == Fill \/ Loop \/ Finish
Spec == Init /\ [][Next]_vars /\ WF_vars(Next)

\* C01: what comes out is all keys in increasing order
SortedAndComplete == pc = "done" => output = [i \in 1..NK |-> i]
\* C13: no pair is read out twice ...
ReadAtMostOnce == \A x \in DOMAIN reads : reads[x] = 1
\* ... every pair has been read out (moved to the output) when the vectors forget them, so that
\* nothing is leaked and nothing is left for the vectors to drop again
AllMovedOut ==
  pc = "done" => /\ \A v \in Vs : \A i \in 0..(Len(vectors[v]) - 1) : <<v, i>> \in DOMAIN reads
                 /\ \A v \in Vs : lens[v] = 0
Terminates == <>(pc = "done")
=============================================================================
