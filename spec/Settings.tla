------------------------------ MODULE Settings ------------------------------
(***************************************************************************)
(* The runner's resolution of parameters, transcribed from                 *)
(* src/core/runner_settings/{num_threads,chunk_size}.rs and                *)
(* src/core/runner.rs (next_chunk_size).  Lengths are naturals, -1 stands  *)
(* for "unknown" (None).                                                   *)
(***************************************************************************)
EXTENDS Naturals, Integers

MAX_UNSET_NUM_THREADS == 8
INITIAL_CHUNK_SIZE == 1048576      \* 1 << 20
DESIRED_MIN_CHUNK_SIZE == 64
LAG_PERIODICITY == 4

Min2(a, b) == IF a <= b THEN a ELSE b
Max2(a, b) == IF a >= b THEN a ELSE b

\* calc_num_threads(..).max(1)
CalcNumThreads(len, nt, ntv, avail) ==
  LET raw == IF nt = "auto"
             THEN Min2(IF len < 0 THEN MAX_UNSET_NUM_THREADS ELSE len, avail)
             ELSE Min2(IF len < 0 THEN ntv ELSE Min2(len, ntv), avail)
  IN  Max2(raw, 1)

MinRequiredLen(task, oneRound) == IF task = "EarlyReturn" THEN oneRound * 8 ELSE oneRound * 4

RECURSIVE FindChunk(_, _, _, _)
FindChunk(task, len, T, c) ==
  LET oneRound == c * T
  IN  IF len >= MinRequiredLen(task, oneRound) THEN c
      ELSE IF len >= oneRound /\ c <= DESIRED_MIN_CHUNK_SIZE THEN c
      ELSE IF c = 1 THEN c
      ELSE FindChunk(task, len, T, c \div 2)

AutoChunk(task, len, T) == IF len <= 0 THEN 1 ELSE FindChunk(task, len, T, INITIAL_CHUNK_SIZE)

DivCeil(a, b) == (a \div b) + (IF a % b > 0 THEN 1 ELSE 0)

\* min_chunk_size with the saturating product: T * x > len  (x > len decides without multiplying)
MinChunk(len, T, x) ==
  IF len < 0 THEN x
  ELSE IF len = 0 THEN 1
  ELSE IF x > len \/ T * x > len THEN DivCeil(len, T) ELSE x

\* calc_chunk_size: [exact, c]
CalcChunk(task, len, T, ck, csv) ==
  CASE ck = "auto" -> [exact |-> FALSE, c |-> AutoChunk(task, len, T)]
    [] ck = "min" -> [exact |-> FALSE, c |-> MinChunk(len, T, csv)]
    [] ck = "exact" -> [exact |-> TRUE, c |-> csv]

\* has_more is <<"No", 0>>, <<"Maybe", 0>> or <<"Yes", remaining>>
DoSpawn(spawned, maxT, hm) == spawned < maxT - 1 /\ hm[1] # "No"

\* next_chunk_size: 0 stands for None (leave the spawn loop)
NextChunk(spawned, maxT, hm, exact, c, len) ==
  IF hm[1] = "No" \/ spawned >= maxT - 1 THEN 0
  ELSE IF hm[1] = "Maybe" \/ exact THEN c
  ELSE IF spawned = 0 THEN c
  ELSE LET done == len - hm[2]
           perThread == done \div spawned
       IN  Max2(perThread \div c, 1) * c
=============================================================================
