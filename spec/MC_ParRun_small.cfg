SPECIFICATION Spec
CONSTANTS
  MaxW = 3
  Avail = 16
  NN = 3
  Srcs = {"vec", "iterx"}
  Terms = {"collect_vec", "collect_x", "count", "find", "reduce"}
  Nts = {2, 3}
  Css <- Cs_1_2
  Fans <- Fans_012
  Crashes <- NoCrash
  Kinds = {"flat", "fmap", "filter"}
INVARIANTS
  TypeOK
  P_OrderedCollect
  P_Permutation
  P_Count
  P_FirstMatch
  P_Sequential
  P_AtMostOnce
  P_ExactlyOnce
  P_BuffersSorted
  P_ThreadBound
  P_BoundedAfterSkip
  P_ExactPulls
  P_DisjointPulls
PROPERTIES
  P_Terminates
CHECK_DEADLOCK FALSE
