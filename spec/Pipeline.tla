------------------------------ MODULE Pipeline ------------------------------
(***************************************************************************)
(* Pure operators: the sequential meaning of a program.                    *)
(*                                                                         *)
(* A program is a record (it arrives as JSON from the harness or is built  *)
(* by an MC_* module):                                                     *)
(*   src   : "vec" | "slice" | "range" | "iter" | "iterx" | "inf" | ...    *)
(*   input : sequence of values 0..V-1                                     *)
(*   ops   : sequence of [k, t, tt, v, h]; k \in map|filter|fmap|flat are  *)
(*           stages (t / tt are finite tables over values), nt|cs|csmin    *)
(*           set a parameter to v                                          *)
(*   term  : [k, t, op, tk, pre, cap]                                      *)
(*   cs,ck : crash point (stage, key), cs = -1 for none                    *)
(* An element is [k |-> lineage key, v |-> value]; the key of source       *)
(* position i is i; a flat_map child j (0-based) of key x has key x*4+j.   *)
(***************************************************************************)
EXTENDS Naturals, Integers, Sequences, FiniteSets, TLC

FAN == 4
StageKinds == {"map", "filter", "fmap", "flat"}
TermStage == 99       \* terminal closure (predicate / for_each)
KeyStage == 97        \* key / compare closure of the *_by(_key) terminals

Elem(k, v) == [k |-> k, v |-> v]

IsStage(o) == o.k \in StageKinds
Stages(p) == SelectSeq(p.ops, IsStage)

RECURSIVE FlattenSeqs(_)
FlattenSeqs(ss) == IF ss = <<>> THEN <<>> ELSE Head(ss) \o FlattenSeqs(Tail(ss))

(***************************************************************************)
(* One element through stages s..Len(st), depth first and lazily, exactly  *)
(* like a chain of std::iter adaptors: `calls` is the list of closure      *)
(* calls <<stage, key, value>> in evaluation order, `out` what comes out.  *)
(***************************************************************************)
RECURSIVE RunFrom(_, _, _)
RunFrom(st, s, x) ==
  IF s > Len(st) THEN [calls |-> <<>>, out |-> <<x>>]
  ELSE
    LET o == st[s]
        c == <<s, x.k, x.v>>
    IN  CASE o.k = "map" ->
               LET r == RunFrom(st, s + 1, Elem(x.k, o.t[x.v + 1]))
               IN  [calls |-> <<c>> \o r.calls, out |-> r.out]
          [] o.k = "filter" ->
               IF o.t[x.v + 1] # 0
               THEN LET r == RunFrom(st, s + 1, x)
                    IN  [calls |-> <<c>> \o r.calls, out |-> r.out]
               ELSE [calls |-> <<c>>, out |-> <<>>]
          [] o.k = "fmap" ->
               IF o.t[x.v + 1] >= 0
               THEN LET r == RunFrom(st, s + 1, Elem(x.k, o.t[x.v + 1]))
                    IN  [calls |-> <<c>> \o r.calls, out |-> r.out]
               ELSE [calls |-> <<c>>, out |-> <<>>]
          [] o.k = "flat" ->
               LET kids == o.tt[x.v + 1]
                   rs == [j \in 1..Len(kids) |->
                            RunFrom(st, s + 1, Elem(x.k * FAN + (j - 1), kids[j]))]
               IN  [calls |-> <<c>> \o FlattenSeqs([j \in 1..Len(kids) |-> rs[j].calls]),
                    out |-> FlattenSeqs([j \in 1..Len(kids) |-> rs[j].out])]

\* A derived program (the part of a chain after an eager site, see Groups below) carries its
\* source elements explicitly (`elems`, with their lineage keys) and the number of stages that
\* precede it in the original chain (`off`), so that stage numbers stay those of the original.
\* src = "vecadv": a concurrent iterator over a Vec from which p.adv elements were pulled before it
\* was handed to the library; what is left keeps its original positions.
Adv(p) == IF p.src = "vecadv" /\ "adv" \in DOMAIN p THEN p.adv ELSE 0
SrcElems(p) == IF "elems" \in DOMAIN p THEN p.elems
               ELSE [i \in 1..(Len(p.input) - Adv(p)) |-> Elem(Adv(p) + i - 1, p.input[Adv(p) + i])]
StageOff(p) == IF "off" \in DOMAIN p THEN p.off ELSE 0
ShiftCalls(calls, off) == [i \in 1..Len(calls) |-> <<calls[i][1] + off, calls[i][2], calls[i][3]>>]

\* per source position: [calls, out]
PerElem(p) == LET st == Stages(p)
                  src == SrcElems(p)
              IN  [i \in 1..Len(src) |->
                     LET r == RunFrom(st, 1, src[i])
                     IN  [calls |-> ShiftCalls(r.calls, StageOff(p)), out |-> r.out]]

OutOf(pe) == FlattenSeqs([i \in 1..Len(pe) |-> pe[i].out])
CallsOf(pe) == FlattenSeqs([i \in 1..Len(pe) |-> pe[i].calls])

SeqOut(p) == OutOf(PerElem(p))
SeqCalls(p) == CallsOf(PerElem(p))

(***************************************************************************)
(* Bags (multisets) as functions into positive naturals.                   *)
(***************************************************************************)
EmptyBag == << >>
BagAdd(b, x) == IF x \in DOMAIN b THEN [b EXCEPT ![x] = @ + 1] ELSE b @@ (x :> 1)
BagCount(b, x) == IF x \in DOMAIN b THEN b[x] ELSE 0
RECURSIVE BagOfSeqFrom(_, _, _)
BagOfSeqFrom(s, i, b) == IF i > Len(s) THEN b ELSE BagOfSeqFrom(s, i + 1, BagAdd(b, s[i]))
BagOfSeq(s) == BagOfSeqFrom(s, 1, EmptyBag)
BagEq(a, b) == DOMAIN a = DOMAIN b /\ \A x \in DOMAIN a : a[x] = b[x]
BagLeq(a, b) == DOMAIN a \subseteq DOMAIN b /\ \A x \in DOMAIN a : a[x] <= b[x]
BagSize(b) == LET RECURSIVE Sum(_)
                  Sum(S) == IF S = {} THEN 0
                            ELSE LET x == CHOOSE y \in S : TRUE IN b[x] + Sum(S \ {x})
              IN  Sum(DOMAIN b)

Keys(s) == [i \in 1..Len(s) |-> s[i].k]
Vals(s) == [i \in 1..Len(s) |-> s[i].v]
Pairs(s) == [i \in 1..Len(s) |-> <<s[i].k, s[i].v>>]
ZipKV(ks, vs) == [i \in 1..Len(ks) |-> <<ks[i], vs[i]>>]

(***************************************************************************)
(* Terminals.                                                              *)
(***************************************************************************)
CollectTerms == {"collect_vec", "collect", "collect_into"}
FindTerms == {"find", "first", "any", "all", "find_idx", "first_idx"}
ReduceTerms == {"reduce", "fold", "sum", "min", "max", "min_by", "max_by", "min_by_key", "max_by_key"}
ShortCircuit == FindTerms
FullTerms == CollectTerms \cup ReduceTerms \cup {"collect_x", "count", "for_each"}

Pred(p, x) == p.term.t[x.v + 1] # 0

\* the predicate a find-like terminal searches with (all = find of the negation)
Wanted(p, x) == CASE p.term.k \in {"find", "any", "find_idx"} -> Pred(p, x)
                  [] p.term.k = "all" -> ~Pred(p, x)
                  [] OTHER -> TRUE

RECURSIVE FirstIdx(_, _, _)
FirstIdx(p, out, i) == IF i > Len(out) THEN 0
                       ELSE IF Wanted(p, out[i]) THEN i ELSE FirstIdx(p, out, i + 1)
\* index in `out` of the first wanted element, 0 if none
FirstMatch(p, out) == FirstIdx(p, out, 1)


RECURSIVE XorNat(_, _)
XorNat(x, y) == IF x = 0 /\ y = 0 THEN 0
                ELSE (((x % 2) + (y % 2)) % 2) + 2 * XorNat(x \div 2, y \div 2)

ApplyOp(op, a, b) ==
  CASE op = "add" -> a + b
    [] op = "xor" -> XorNat(a, b)
    [] op = "min" -> IF a <= b THEN a ELSE b
    [] op = "max" -> IF a >= b THEN a ELSE b
    [] op = "sub" -> a - b
    [] op = "poly" -> (a * 3 + b) % 1009
    [] OTHER -> a

RECURSIVE FoldVals(_, _, _, _)
FoldVals(op, vs, i, acc) == IF i > Len(vs) THEN acc
                            ELSE FoldVals(op, vs, i + 1, ApplyOp(op, acc, vs[i]))
\* left fold of a non-empty value sequence
LeftFold(op, vs) == FoldVals(op, vs, 2, vs[1])

OpOfTerm(p) == CASE p.term.k \in {"reduce", "fold"} -> p.term.op
                 [] p.term.k = "sum" -> "add"
                 [] p.term.k = "min" -> "min"
                 [] p.term.k = "max" -> "max"
                 [] OTHER -> "none"

MinOfSet(S) == CHOOSE x \in S : \A y \in S : x <= y
MaxOfSet(S) == CHOOSE x \in S : \A y \in S : x >= y
SeqRange(s) == {s[i] : i \in 1..Len(s)}

\* key of an element under the table of a *_by(_key) terminal
ByKey(p, x) == p.term.t[x.v + 1]


(***************************************************************************)
(* Calls including the terminal's per-element closure (stage 99).          *)
(***************************************************************************)
TermHasClosure(p) == p.term.k \in {"find", "any", "all", "find_idx", "for_each"}

Renumber(calls, from, to) == [i \in 1..Len(calls) |->
                                IF calls[i][1] = from THEN <<to, calls[i][2], calls[i][3]>> ELSE calls[i]]

\* per source position, with the terminal closure appended as a last tap stage
FullPerElem(p) ==
  LET st == Stages(p)
      st2 == IF TermHasClosure(p) THEN st \o << [k |-> "filter", t |-> [i \in 1..64 |-> 1]] >> ELSE st
      src == SrcElems(p)
  IN  [i \in 1..Len(src) |->
         LET r == RunFrom(st2, 1, src[i])
             cs == IF TermHasClosure(p) THEN Renumber(r.calls, Len(st) + 1, TermStage - StageOff(p)) ELSE r.calls
         IN  [calls |-> ShiftCalls(cs, StageOff(p)), out |-> r.out]]

\* the stage whose call is the first closure evaluated per source element
FirstStage(p) == IF Len(Stages(p)) > 0 THEN StageOff(p) + 1 ELSE TermStage

NumFlat(p) == Len(SelectSeq(Stages(p), LAMBDA o : o.k = "flat"))
RECURSIVE Pow(_, _)
Pow(b, e) == IF e = 0 THEN 1 ELSE b * Pow(b, e - 1)
\* source position an output element descends from
RootOf(p, k) == k \div Pow(FAN, NumFlat(p))


(***************************************************************************)
(* "Big" programs: source length p.n larger than the pattern p.input;      *)
(* position i carries input[i % Len(input)].  Their traces carry digests   *)
(* of the collected sequence instead of the sequence; the same digests are *)
(* computed here from the sequential semantics.                            *)
(***************************************************************************)
\* (an explicit input of more than 2000 values is treated the same way: digests, no call log)
IsBig(p) == ("n" \in DOMAIN p /\ p.n > Len(p.input)) \/ Len(p.input) > 2000
SrcLen(p) == IF "n" \in DOMAIN p /\ p.n > Len(p.input) THEN p.n ELSE Len(p.input)
HM == 46337
HX(e) == (e.k * 7 + e.v + 1) % HM

RECURSIVE OutOnly(_, _, _)
OutOnly(st, s, x) ==
  IF s > Len(st) THEN <<x>>
  ELSE LET o == st[s]
       IN  CASE o.k = "map" -> OutOnly(st, s + 1, Elem(x.k, o.t[x.v + 1]))
             [] o.k = "filter" -> IF o.t[x.v + 1] # 0 THEN OutOnly(st, s + 1, x) ELSE <<>>
             [] o.k = "fmap" -> IF o.t[x.v + 1] >= 0 THEN OutOnly(st, s + 1, Elem(x.k, o.t[x.v + 1])) ELSE <<>>
             [] o.k = "flat" -> LET kids == o.tt[x.v + 1]
                                IN  FlattenSeqs([j \in 1..Len(kids) |->
                                       OutOnly(st, s + 1, Elem(x.k * FAN + (j - 1), kids[j]))])

RECURSIVE DigestSeq(_, _, _)
\* acc = [n, hs, hu, sum, mink]
DigestSeq(out, j, acc) ==
  IF j > Len(out) THEN acc
  ELSE DigestSeq(out, j + 1,
         [n |-> acc.n + 1, hs |-> (acc.hs * 31 + HX(out[j])) % HM,
          hu |-> (acc.hu + ((HX(out[j]) * HX(out[j])) % HM)) % HM,
          sum |-> acc.sum + out[j].v,
          mink |-> IF acc.mink < 0 \/ out[j].k < acc.mink THEN out[j].k ELSE acc.mink])

\* digests combine associatively, so the fold over 10^5 positions is done by halving (depth ~17)
RECURSIVE PowMod(_, _)
PowMod(b, e) == IF e = 0 THEN 1
                ELSE LET h == PowMod(b, e \div 2)
                     IN  IF e % 2 = 0 THEN (h * h) % HM ELSE (((h * h) % HM) * b) % HM
EmptyDigest == [n |-> 0, hs |-> 0, hu |-> 0, sum |-> 0, mink |-> -1]
JoinDigest(a, b) ==
  [n |-> a.n + b.n,
   hs |-> (((a.hs * PowMod(31, b.n)) % HM) + b.hs) % HM,
   hu |-> (a.hu + b.hu) % HM,
   sum |-> a.sum + b.sum,
   mink |-> IF a.mink < 0 THEN b.mink ELSE IF b.mink < 0 THEN a.mink ELSE IF a.mink <= b.mink THEN a.mink ELSE b.mink]

RECURSIVE RangeDigest(_, _, _, _)
\* digest of the outputs of source positions lo .. hi-1
RangeDigest(p, st, lo, hi) ==
  IF hi <= lo THEN EmptyDigest
  ELSE IF hi - lo = 1
       THEN DigestSeq(OutOnly(st, 1, Elem(lo, p.input[(lo % Len(p.input)) + 1])), 1, EmptyDigest)
       ELSE LET mid == lo + ((hi - lo) \div 2)
            IN  JoinDigest(RangeDigest(p, st, lo, mid), RangeDigest(p, st, mid, hi))
BigDigest(p) == RangeDigest(p, Stages(p), 0, SrcLen(p))

RECURSIVE BigFirstIn(_, _, _, _)
\* first wanted output among source positions lo .. hi-1 of a big program: <<>> or <<elem>>
BigFirstIn(p, st, lo, hi) ==
  IF hi <= lo THEN <<>>
  ELSE IF hi - lo = 1
       THEN LET out == OutOnly(st, 1, Elem(lo, p.input[(lo % Len(p.input)) + 1]))
                i == FirstMatch(p, out)
            IN  IF i = 0 THEN <<>> ELSE <<out[i]>>
       ELSE LET mid == lo + ((hi - lo) \div 2)
                l == BigFirstIn(p, st, lo, mid)
            IN  IF l # <<>> THEN l ELSE BigFirstIn(p, st, mid, hi)
BigFirst(p) == BigFirstIn(p, Stages(p), 0, SrcLen(p))


(***************************************************************************)
(* The transformation table of the builder: type x transformation ->       *)
(* <<type, eager>>.  `eager` marks the sites where the pinned tree          *)
(* materialises the intermediate result at construction time.              *)
(***************************************************************************)
Types == {"Empty", "Map", "Fil", "MapFil", "FilterMap", "FilterMapFil", "FlatMap", "FlatMapFil"}

Trans(ty, k) ==
  CASE ty = "Empty" -> (CASE k = "map" -> <<"Map", FALSE>> [] k = "filter" -> <<"Fil", FALSE>>
                          [] k = "flat" -> <<"FlatMap", FALSE>> [] k = "fmap" -> <<"FilterMap", FALSE>>)
    [] ty = "Map" -> (CASE k = "map" -> <<"Map", FALSE>> [] k = "filter" -> <<"MapFil", FALSE>>
                          [] k = "flat" -> <<"FlatMap", FALSE>> [] k = "fmap" -> <<"FilterMap", FALSE>>)
    [] ty = "Fil" -> (CASE k = "map" -> <<"FilterMap", FALSE>> [] k = "filter" -> <<"Fil", FALSE>>
                          [] k = "flat" -> <<"FlatMap", TRUE>> [] k = "fmap" -> <<"FilterMap", FALSE>>)
    [] ty = "MapFil" -> (CASE k = "map" -> <<"FilterMap", FALSE>> [] k = "filter" -> <<"MapFil", FALSE>>
                          [] k = "flat" -> <<"FlatMap", TRUE>> [] k = "fmap" -> <<"FilterMap", FALSE>>)
    [] ty = "FilterMap" -> (CASE k = "map" -> <<"FilterMap", FALSE>> [] k = "filter" -> <<"FilterMapFil", FALSE>>
                          [] k = "flat" -> <<"FlatMap", TRUE>> [] k = "fmap" -> <<"FilterMap", FALSE>>)
    [] ty = "FilterMapFil" -> (CASE k = "map" -> <<"FilterMap", FALSE>> [] k = "filter" -> <<"FilterMapFil", FALSE>>
                          [] k = "flat" -> <<"FlatMap", TRUE>> [] k = "fmap" -> <<"FilterMap", FALSE>>)
    [] ty = "FlatMap" -> (CASE k = "map" -> <<"FlatMap", FALSE>> [] k = "filter" -> <<"FlatMapFil", FALSE>>
                          [] k = "flat" -> <<"FlatMap", FALSE>> [] k = "fmap" -> <<"FilterMap", TRUE>>)
    [] ty = "FlatMapFil" -> (CASE k = "map" -> <<"Map", TRUE>> [] k = "filter" -> <<"FlatMapFil", FALSE>>
                          [] k = "flat" -> <<"FlatMap", TRUE>> [] k = "fmap" -> <<"FilterMap", TRUE>>)

\* the (type, transformation) pairs that are eager in the pinned tree: the known findings of C16
EagerSites == {<<ty, k>> \in Types \X StageKinds : Trans(ty, k)[2]}

RECURSIVE TypeAfter(_, _, _)
TypeAfter(st, i, ty) == IF i > Len(st) THEN ty ELSE TypeAfter(st, i + 1, Trans(ty, st[i].k)[1])
FinalType(p) == TypeAfter(Stages(p), 1, "Empty")

RECURSIVE EagerAt(_, _, _)
\* set of stage numbers whose application is eager
EagerAt(st, i, ty) == IF i > Len(st) THEN {}
                      ELSE LET tr == Trans(ty, st[i].k)
                           IN  (IF tr[2] THEN {i} ELSE {}) \cup EagerAt(st, i + 1, tr[1])
EagerStages(p) == EagerAt(Stages(p), 1, "Empty")

(***************************************************************************)
(* Parameters.                                                             *)
(***************************************************************************)
DefaultParams == [nt |-> "auto", ntv |-> 0, ck |-> "auto", csv |-> 0]
\* parameter values are logged clamped to 2*10^9 (TLC integers are 32 bit); an op may name a
\* larger value as v << sh
BigVal == 2000000000
OpVal(o) == IF "sh" \in DOMAIN o /\ o.sh > 0 THEN BigVal ELSE IF o.v > BigVal THEN BigVal ELSE o.v
SetParam(pr, o) ==
  LET v == OpVal(o)
  IN  CASE o.k = "nt" -> IF v = 0 THEN [pr EXCEPT !.nt = "auto", !.ntv = 0]
                         ELSE [pr EXCEPT !.nt = "max", !.ntv = v]
        [] o.k = "cs" -> IF v = 0 THEN [pr EXCEPT !.ck = "auto", !.csv = 0]
                         ELSE [pr EXCEPT !.ck = "exact", !.csv = v]
        [] o.k = "csmin" -> IF v = 0 THEN [pr EXCEPT !.ck = "auto", !.csv = 0]
                            ELSE [pr EXCEPT !.ck = "min", !.csv = v]
        [] OTHER -> pr
IsSequential(pr) == pr.nt = "max" /\ pr.ntv = 1

RECURSIVE ParamsAfter(_, _, _)
ParamsAfter(ops, i, pr) == IF i > Len(ops) THEN pr ELSE ParamsAfter(ops, i + 1, SetParam(pr, ops[i]))
FinalParams(p) == ParamsAfter(p.ops, 1, DefaultParams)
(***************************************************************************)
(* A chain with eager sites is executed as a sequence of runs: everything  *)
(* before the first eager transformation is materialised with collect_vec  *)
(* (under the parameters set so far) when that transformation is applied,  *)
(* and the rest of the chain starts afresh from the materialised vector.   *)
(* Groups(p) is that sequence of programs.                                 *)
(***************************************************************************)
MinOf(S) == CHOOSE x \in S : \A y \in S : x <= y
RECURSIVE OpIndexOfStage(_, _, _)
\* index in ops of the n-th stage op
OpIndexOfStage(ops, i, n) == IF IsStage(ops[i]) THEN (IF n = 1 THEN i ELSE OpIndexOfStage(ops, i + 1, n - 1))
                             ELSE OpIndexOfStage(ops, i + 1, n)
IsParamOp(o) == ~IsStage(o)
MaterialiseTerm == [k |-> "collect_vec", t |-> <<>>, op |-> "", tk |-> "", pre |-> <<>>, cap |-> 0]

RECURSIVE Groups(_)
Groups(p) ==
  LET es == EagerStages(p)
  IN  IF es = {}
      THEN \* for_each(f) is map(f).count(): on a type whose `map` materialises, the chain so far is
           \* collected first and f runs over the collected elements in a run of its own
           IF p.term.k = "for_each" /\ Len(Stages(p)) > 0 /\ Trans(FinalType(p), "map")[2]
           THEN LET p1 == [src |-> p.src, input |-> p.input, elems |-> SrcElems(p), off |-> StageOff(p),
                           ops |-> p.ops, term |-> MaterialiseTerm, cs |-> p.cs, ck |-> p.ck]
                    mid == SeqOut(p1)
                IN  << p1,
                       [src |-> "vec", input |-> Vals(mid), elems |-> mid, off |-> StageOff(p) + Len(Stages(p)),
                        ops |-> SelectSeq(p.ops, IsParamOp), term |-> p.term, cs |-> p.cs, ck |-> p.ck] >>
           ELSE <<p>>
      ELSE LET e == MinOf(es)
               idx == OpIndexOfStage(p.ops, 1, e)
               before == SubSeq(p.ops, 1, idx - 1)
               p1 == [src |-> p.src, input |-> p.input, elems |-> SrcElems(p), off |-> StageOff(p),
                      ops |-> before, term |-> MaterialiseTerm, cs |-> p.cs, ck |-> p.ck]
               mid == SeqOut(p1)
               p2 == [src |-> "vec", input |-> Vals(mid), elems |-> mid, off |-> StageOff(p) + e - 1,
                      ops |-> SelectSeq(before, IsParamOp) \o SubSeq(p.ops, idx, Len(p.ops)),
                      term |-> p.term, cs |-> p.cs, ck |-> p.ck]
           IN  <<p1>> \o Groups(p2)
=============================================================================
